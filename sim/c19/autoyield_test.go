//go:build autoyield

package c19

import (
	"github.com/AdguardTeam/golibs/logutil/slogutil"

	"verif/sim/kernel"
)

// With the autoyield overlay the mutexes of jsonhybrid.go are simulated ones
// (SimSync is added by the overlay, not by the repository), and there is a
// yield before every statement, inside critical sections too.
func init() { overlayHooks = func() { slogutil.SimSync = kernel.SimSync } }
