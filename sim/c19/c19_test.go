// Package c19 decides property C19: JSONHybridHandler emits exactly one
// well-formed two-field JSON line per record, through any WithAttrs chain and
// from any number of goroutines.  Real code:
// github.com/AdguardTeam/golibs/logutil/slogutil (jsonhybrid.go) and
// syncutil.Pool.  The simulator owns goroutine scheduling (guarded hook before
// the encoder mutex, the writer, the pool), what the buffer pool returns, and
// the records.
package c19

import (
	"bytes"
	"context"
	"encoding/json"
	"fmt"
	"io"
	"log/slog"
	"os"
	"runtime"
	"runtime/debug"
	"sort"
	"strings"
	"sync/atomic"
	"testing"
	"time"

	"github.com/AdguardTeam/golibs/logutil/slogutil"
	"github.com/AdguardTeam/golibs/syncutil"

	"verif/sim/kernel"
)

func TestWorker(t *testing.T) {
	kernel.WorkerMain(t, &kernel.Check{
		ID:     "C19",
		Bubble: true,
		Setup: func() {
			slogutil.SimHook = kernel.HookPoint
			syncutil.SimHook = kernel.HookSite
			syncutil.SimPoolGet = kernel.PoolGet
			syncutil.SimPoolPut = kernel.PoolPut
			if overlayHooks != nil {
				overlayHooks()
			}
			if simsyncHooks != nil {
				simsyncHooks()
			}
		},
		Run: run,
	})
}

// simWriter is the shared destination.  The bytes are collected by the
// scheduler (each Write hands over copies), so the harness itself shares no
// memory between tasks; a missing mutex in the handler shows as overlapping
// Write calls and as a race inside the shared json.Encoder.
type simWriter struct {
	k        *kernel.Kernel
	buf      []byte       // scheduler-side
	inWrite  map[int]bool // scheduler-side, per handler family
	writes   int          // scheduler-side
	panicAt  int          // scheduler-side: index of the Write that panics, -1 none
	errAt    int          // scheduler-side: index of the Write that fails with an error, -1 none
	deadline time.Time    // scheduler-side: write deadline, if one was set

	// curFam[i] is the handler family (the handlers that go back to one
	// constructor call) task i is handling through; famFailed[f] is set once a
	// Write made for family f has failed.  Both scheduler-side.
	curFam    []int
	famFailed map[int]bool
}

// errWriterFailed is what the writer returns when told to fail that way.
var errWriterFailed = fmt.Errorf("verif: the writer fails")

// errWriterPanic is what the writer panics with when told to fail that way.
var errWriterPanic = fmt.Errorf("verif: the writer panics")

// SetWriteDeadline makes the writer one "that supports write deadlines" (a
// pipe, a socket): a Write after a deadline that somebody has set fails, as
// those do.  Nobody has a reason to set one.
func (w *simWriter) SetWriteDeadline(t time.Time) error {
	w.k.Tell("writer.deadline", func() { w.deadline = t })

	return nil
}

func (w *simWriter) Write(p []byte) (int, error) {
	k := w.k
	if expired := k.Ask("writer.deadline?", func() any { return !w.deadline.IsZero() && !time.Now().Before(w.deadline) }).(bool); expired {
		return 0, os.ErrDeadlineExceeded
	}
	// The writer itself is one whose Write calls are atomic (as a file's are):
	// the bytes of one call stay together.  Handlers that go back to one
	// constructor call must serialise their calls all the same (they share
	// one encoder); separately constructed handlers need not.
	whole := append([]byte(nil), p...)
	fam := -1
	fail := k.Ask("writer.begin", func() any {
		if t := k.LastRun(); t != nil && t.Idx < len(w.curFam) {
			fam = w.curFam[t.Idx]
		}
		if w.inWrite[fam] {
			k.Fail("overlapping-write", "JSONHybridHandler.Handle", "a Write to the shared writer began while another one by a handler sharing the same encoder was in progress")
		}
		w.writes++
		if w.writes-1 == w.panicAt {
			return 1
		}
		if w.writes-1 == w.errAt {
			w.famFailed[fam] = true

			return 2
		}
		w.inWrite[fam] = true

		return 0
	}).(int)
	switch fail {
	case 1:
		// A fault of the environment: this record's line is lost, every later
		// record must still come out (the handler must not stay locked).
		panic(errWriterPanic)
	case 2:
		// The other kind: the Write fails.  This record's line is lost, and
		// the handlers that share the failed encoder may lose later ones too
		// (encoding/json remembers a failed Write); a handler constructed
		// separately for the same writer must not be affected.
		return 0, errWriterFailed
	}
	k.Yield("writer.mid")
	k.Tell("writer.end", func() {
		w.buf = append(w.buf, whole...)
		w.inWrite[fam] = false
	})

	return len(p), nil
}

// flushWriter is the shared destination with a Flush method, as buffered
// destinations have (bufio.Writer and the like).  Such writers are not safe
// for concurrent use: a Flush is one more call on the writer that the
// handlers sharing it must serialise with their Write calls.  Nobody has a
// reason to call it.
type flushWriter struct{ *simWriter }

func (f flushWriter) Flush() error {
	w := f.simWriter
	k := w.k
	fam := -1
	k.Ask("writer.flush.begin", func() any {
		if t := k.LastRun(); t != nil && t.Idx < len(w.curFam) {
			fam = w.curFam[t.Idx]
		}
		if w.inWrite[fam] {
			k.Fail("overlapping-write", "JSONHybridHandler.Handle", "a Flush of the shared writer began while a Write or Flush by a handler sharing the same encoder was in progress")
		}
		w.inWrite[fam] = true

		return nil
	})
	k.Yield("writer.flush.mid")
	k.Tell("writer.flush.end", func() { w.inWrite[fam] = false })

	return nil
}

var msgPool = []string{
	"plain", "two words", "quote\"inside", "new\nline", "tab\there", "ctl\x01\x7f", "bad\xff\xfeutf8", "",
	"back\\slash", "uni sep é", "<html>&amp;", "key=value", " lead", "trail ", "{\"json\":1}",
	"del\x7f", "\x7f", "nbsp ", "zero​width", "ls ps ", "emoji😀", "�", "bell\a", "esc\x1b[0m",
}

type ctxKey struct{}

var hugeMsg = strings.Repeat("0123456789abcdef", 4500) // 72 000 bytes

var keyPool = []string{"k", "key two", "a.b", "q\"k", "", "n\nk", "ü", "level", "msg", "time", "d\x7fk", "severity", "message"}

var levels = []slog.Level{slog.LevelDebug, slog.LevelInfo, slog.LevelWarn, slog.LevelError, slog.Level(-8), slog.Level(2), slog.Level(5), slog.Level(7), slog.Level(9), slog.Level(12)}

// phaseBox and phased: a slog.LogValuer whose value changes after the
// handler tree has been built (phase 0 while deriving, 1 while handling), as a
// value that reports the current state of something does.
type phaseBox struct{ phase int }

type phased struct {
	box  *phaseBox
	a, b string
}

func (p phased) LogValue() slog.Value {
	if p.box.phase == 0 {
		return slog.StringValue(p.a)
	}

	return slog.StringValue(p.b)
}

func genAttr(tp *kernel.Tape, depth int, ph *phaseBox) slog.Attr {
	key := keyPool[tp.Choose(len(keyPool))]
	if tp.Bool(1, 12) {
		return slog.Any(key, phased{box: ph, a: "state=starting", b: "state=running"})
	}
	switch tp.Choose(8) {
	case 0:
		return slog.Int(key, tp.Choose(2000)-1000)
	case 1:
		return slog.Bool(key, tp.Bool(1, 2))
	case 2:
		return slog.Float64(key, float64(tp.Choose(100))/8)
	case 3:
		return slog.Duration(key, time.Duration(tp.Choose(100000))*time.Millisecond)
	case 4:
		if depth < 2 {
			var as []any
			for n := tp.Choose(3); n > 0; n-- {
				as = append(as, genAttr(tp, depth+1, ph))
			}

			return slog.Group(key, as...)
		}

		return slog.String(key, "deep")
	case 5:
		return slog.Any(key, []byte(msgPool[tp.Choose(len(msgPool))]))
	case 6:
		return slog.Any(key, fmt.Errorf("err %s", msgPool[tp.Choose(len(msgPool))]))
	default:
		return slog.String(key, msgPool[tp.Choose(len(msgPool))])
	}
}

// node is one handler of the derivation tree.
type node struct {
	h     slog.Handler
	attrs []slog.Attr // accumulated along the chain
	name  string
}

type handled struct {
	task  int
	seq   int
	id    int
	level slog.Level
	want  string // predicted message
	// optional: handled through a family one of whose Writes has failed; its
	// line may be missing.
	optional bool
}

type outLine struct {
	severity string
	message  string
}

func run(rc *kernel.RunCtx) {
	tp := rc.Tape
	k := kernel.NewKernel(tp)
	k.KeepLog = rc.KeepLog
	k.EnablePool(rc.Stats)

	w := &simWriter{k: k, panicAt: -1, errAt: -1, famFailed: map[int]bool{}, inWrite: map[int]bool{}}
	var dst io.Writer = w
	if tp.Bool(1, 4) {
		dst = flushWriter{w}
		rc.Stats.Probe("writer-offers-flush")
	}
	if tp.Bool(1, 12) {
		w.panicAt = tp.Choose(6)
		rc.Stats.Fault("writer-panic-armed")
	}
	if tp.Bool(1, 10) {
		w.errAt = tp.Choose(6)
		rc.Stats.Fault("writer-error-armed")
	}
	// In some runs tasks construct further handlers for the same writer (with
	// the same options) while the run is under way.
	moreRoots := tp.Bool(1, 3)
	ph := &phaseBox{}

	// Options.
	var opts *slog.HandlerOptions
	cfgLevel := slog.LevelInfo
	removeTime := false
	elideBuiltins := false
	switch tp.Choose(4) {
	case 0:
		// nil options
	default:
		opts = &slog.HandlerOptions{}
		if tp.Bool(2, 3) {
			cfgLevel = []slog.Level{slog.LevelDebug, slog.LevelInfo, slog.LevelWarn, slog.LevelError, slog.Level(-8), slog.Level(6)}[tp.Choose(6)]
			opts.Level = cfgLevel
		}
		if tp.Bool(1, 4) {
			opts.AddSource = true
		}
		if tp.Bool(1, 6) {
			// A ReplaceAttr that elides all built-in attributes: a record
			// without attributes then renders to an empty text line.
			opts.ReplaceAttr = func(groups []string, a slog.Attr) slog.Attr {
				if len(groups) == 0 && (a.Key == slog.TimeKey || a.Key == slog.LevelKey || a.Key == slog.MessageKey) {
					return slog.Attr{}
				}

				return a
			}
			elideBuiltins = true
		} else if tp.Bool(1, 2) {
			removeTime = true
			// Like slogutil's own ReplaceAttr, but total: slogutil.ReplaceLevel
			// panics on a user attribute named "level" whose value is not a
			// slog.Level (observed here; outside C19, where the reference
			// slog.TextHandler would panic in the same way).
			opts.ReplaceAttr = func(groups []string, a slog.Attr) slog.Attr {
				a = slogutil.RemoveTime(groups, a)
				if len(groups) == 0 && a.Key == slog.LevelKey {
					if lvl, ok := a.Value.Any().(slog.Level); ok && lvl == slogutil.LevelTrace {
						a.Value = slog.StringValue("TRACE")
					}
				}

				return a
			}
		}
	}
	_ = removeTime
	// A ReplaceAttr that logs: for an attribute named "reenter" it handles a
	// record of its own through the root handler before it returns (a
	// redaction hook that reports what it redacts).  running is set just
	// before the tasks are created; the predictions made before do not log.
	running := false
	reentrant := false
	var reenterFn func(ti int)
	if opts != nil && opts.ReplaceAttr == nil && tp.Bool(1, 2) {
		reentrant = true
		opts.ReplaceAttr = func(groups []string, a slog.Attr) slog.Attr {
			if running && len(groups) == 0 && a.Key == "reenter" && a.Value.Kind() == slog.KindInt64 {
				reenterFn(int(a.Value.Int64()))
			}

			return a
		}
		rc.Stats.Probe("replaceattr-that-logs")
	}
	// How deep the hook may log from inside its own logging: normally once;
	// some runs let the record written by the hook be redacted in turn, down
	// to a drawn depth, so that many Handle calls of one handler family are
	// in progress at the same time without many tasks (anything the handler
	// holds per call in progress - pooled buffers, slots - is held maxNest+1
	// times over then).
	maxNest := 1
	if reentrant && tp.Bool(1, 12) {
		maxNest = tp.Range(2, 96)
		rc.Stats.Probe("deeply-nested-handle")
	}
	// Records normally carry a unique "id" attribute; some runs do without,
	// so that records with no attributes at all occur (lines are compared as
	// a multiset, which does not need uniqueness).
	withID := !tp.Bool(1, 4)
	if elideBuiltins {
		withID = tp.Bool(1, 2)
	}

	root := &node{h: slogutil.NewJSONHybridHandler(dst, opts), name: "h0"}
	nodes := []*node{root}
	derive := func(parent *node, attrs []slog.Attr) *node {
		n := &node{
			h:     parent.h.WithAttrs(attrs),
			attrs: append(append([]slog.Attr(nil), parent.attrs...), attrs...),
			name:  "h" + kernel.Itoa(len(nodes)),
		}

		return n
	}
	genAttrs := func() []slog.Attr {
		var as []slog.Attr
		for n := tp.Range(1, 3); n > 0; n-- {
			as = append(as, genAttr(tp, 0, ph))
		}

		return as
	}
	// Part of the tree is built before the run.
	for n := tp.Choose(5); n > 0; n-- {
		parent := nodes[tp.Choose(len(nodes))]
		nodes = append(nodes, derive(parent, genAttrs()))
	}
	nStatic := len(nodes)
	ph.phase = 1 // from here on (predictions, handling) the phased values have changed
	k.Logf("config level=", kernel.Itoa(int(cfgLevel)), " opts=", btoa(opts != nil), " handlers=", kernel.Itoa(nStatic))

	ctx := context.Background()
	predict := func(r slog.Record, attrs []slog.Attr) string {
		var b bytes.Buffer
		th := slog.NewTextHandler(&b, opts)
		rr := r.Clone()
		rr.AddAttrs(attrs...)
		if err := th.Handle(ctx, rr); err != nil {
			return "predict error: " + err.Error()
		}

		return strings.TrimSuffix(b.String(), "\n")
	}

	// Plans: every task handles records on drawn handlers; a task may first
	// derive a handler of its own (concurrently with the others).
	type step struct {
		node     int // index into nodes; -1: the task's own derived handler
		rec      slog.Record
		id       int
		deriveOf int // >= 0: derive own handler from this node before the step
		attrs    []slog.Attr
		want     string // predicted message (computed before the run)
		name     string
		ctx      context.Context
		shared   bool // the record value is handed out as it is, see sharedRecs
		force    bool // hand the record to Handle although Enabled says no (what a wrapper with a level of its own, or a fan-out, does)
		newRoot  bool // construct a handler for the same writer before the step and make it the own one
		fam      int  // family of the handler the record is handled through
	}
	nTasks := tp.Range(1, 4)
	plans := make([][]step, nTasks)
	w.curFam = make([]int, nTasks)
	// inAPI[i] > 0 while task i is inside a call into the code under test
	// (written by the task itself; read when a run has stalled).
	inAPI := make([]atomic.Int32, nTasks)
	nesting := make([]int, nTasks) // touched by task i only
	nestedRecs := make([]slog.Record, nTasks)
	nestedWant := make([]string, nTasks)
	for ti := range nestedRecs {
		nestedRecs[ti] = slog.NewRecord(time.Time{}, slog.LevelError, "redacted by T"+kernel.Itoa(ti), 0)
		if maxNest > 1 {
			nestedRecs[ti].AddAttrs(slog.Int("reenter", ti))
		}
		nestedWant[ti] = predict(nestedRecs[ti], nil)
	}
	// The context a record is handled with must not matter ("Canceling the
	// context should not affect record processing", slog.Handler): each task
	// has its own live, cancelled, expired and value-carrying contexts,
	// created before the run.
	taskCtxs := make([][]context.Context, nTasks)
	for ti := range taskCtxs {
		cancelled, cancel := context.WithCancel(context.Background())
		cancel()
		expired, cancel2 := context.WithDeadline(context.Background(), time.Unix(1, 0))
		defer cancel2()
		live, cancel3 := context.WithCancel(context.WithValue(context.Background(), ctxKey{}, ti))
		defer cancel3()
		taskCtxs[ti] = []context.Context{ctx, cancelled, expired, live}
	}
	// Derivations made by the tasks during the run draw their attribute lists
	// from a small pool, so that the same list is given to WithAttrs on the
	// same parent more than once; some runs derive a lot.
	derivPool := [][]slog.Attr{genAttrs(), genAttrs(), genAttrs()}
	deriveNum := 1
	if tp.Bool(1, 4) {
		deriveNum = 3
		rc.Stats.Probe("derive-heavy")
	}
	// A record value may be handed to more than one Handle call - by a fan-out
	// handler that passes what it was given to several handlers, by a caller
	// that logs one prepared record through two loggers - and copies of a
	// Record share state.  Records drawn as shared are therefore never cloned by
	// the harness, and later steps (of any task) may hand out the same value
	// again.  ("Do not modify a Record after handing out a copy to it": the
	// harness does not.)
	var sharedRecs []slog.Record
	// Scheduler-side record of what was handled.
	var done []handled
	seqs := make([]int, nTasks)
	nextID := 0
	var t0 time.Time
	if tp.Bool(1, 3) {
		t0 = time.Date(2024, 10, 22, 12, 9, 59, 525000000, time.UTC)
	}
	for ti := range plans {
		hasOwn := false
		ownFam := 0
		var ownAttrs []slog.Attr
		for n := tp.Range(1, 4); n > 0; n-- {
			st := step{deriveOf: -1}
			if moreRoots && tp.Bool(1, 4) {
				st.newRoot = true
				hasOwn = true
				ownFam = 1 + ti
				ownAttrs = nil
				rc.Stats.Probe("handler-constructed-during-run")
			} else if tp.Bool(deriveNum, 4) {
				st.deriveOf = tp.Choose(min(nStatic, 2))
				st.attrs = derivPool[tp.Choose(len(derivPool))]
				hasOwn = true
				ownFam = 0
				ownAttrs = append(append([]slog.Attr(nil), nodes[st.deriveOf].attrs...), st.attrs...)
			}
			st.node = tp.Choose(nStatic)
			if hasOwn && tp.Bool(1, 2) {
				st.node = -1
			}
			lvl := levels[tp.Choose(len(levels))]
			nextID++
			st.id = nextID
			msg := msgPool[tp.Choose(len(msgPool))]
			if tp.Bool(1, 48) {
				// A line far beyond the initial buffer estimate.
				msg = hugeMsg
				rc.Stats.Probe("huge-record")
			}
			pc := uintptr(0)
			if opts != nil && opts.AddSource && tp.Bool(3, 4) {
				pc = herePC()
			}
			r := slog.NewRecord(t0, lvl, msg, pc)
			if withID {
				r.AddAttrs(slog.Int("id", st.id))
			}
			nAttrs := tp.Choose(8)
			if !withID && tp.Bool(1, 2) {
				nAttrs = 0
			}
			for a := nAttrs; a > 0; a-- {
				r.AddAttrs(genAttr(tp, 0, ph))
			}
			switch {
			case len(sharedRecs) > 0 && tp.Bool(1, 6):
				r = sharedRecs[tp.Choose(len(sharedRecs))]
				st.shared = true
				rc.Stats.Probe("record-handled-again")
			case tp.Bool(1, 5):
				sharedRecs = append(sharedRecs, r)
				st.shared = true
			}
			if reentrant && !st.shared && tp.Bool(1, 3) {
				r.AddAttrs(slog.Int("reenter", ti))
			}
			st.force = tp.Bool(1, 4)
			st.rec = r
			st.ctx = ctx
			if tp.Bool(1, 4) {
				c := 1 + tp.Choose(3)
				st.ctx = taskCtxs[ti][c]
				if c < 3 {
					rc.Stats.Fault("context-already-done")
				}
			}
			if st.node >= 0 {
				st.want = predict(r, nodes[st.node].attrs)
				st.name = nodes[st.node].name
			} else {
				st.want = predict(r, ownAttrs)
				st.name = "own handler of T" + kernel.Itoa(ti)
				st.fam = ownFam
			}
			plans[ti] = append(plans[ti], st)
		}
	}

	reenterFn = func(ti int) {
		if ti < 0 || ti >= nTasks || nesting[ti] >= maxNest {
			return
		}
		nesting[ti]++
		defer func() { nesting[ti]-- }()
		prev := k.Ask("nested.begin", func() any {
			p := w.curFam[ti]
			w.curFam[ti] = 0

			return p
		}).(int)
		inAPI[ti].Add(1)
		_, pv, _ := safeHandle(nodes[0].h, ctx, nestedRecs[ti].Clone())
		inAPI[ti].Add(-1)
		if pv != nil {
			// The writer's panic goes on through ReplaceAttr and the outer
			// Handle, as it would without the harness.
			k.Tell("nested.panicked", func() { w.curFam[ti] = prev })
			panic(pv)
		}
		k.Tell("nested.handled", func() {
			w.curFam[ti] = prev
			done = append(done, handled{task: ti, seq: seqs[ti], level: slog.LevelError, want: nestedWant[ti], optional: w.famFailed[0]})
			seqs[ti]++
			rc.Stats.Probe("record-handled-from-inside-replaceattr")
		})
	}
	// A stalled run: a task waits for a lock.  Under a cooperative scheduler
	// that is normally an artefact (the holder is parked at a yield inside
	// the code under test) - unless every other task is outside the code
	// under test, where it can hold none of its locks: then the waiting tasks
	// wait for themselves, for each other or for a lock that a finished call
	// left locked, and never get on.
	k.OnStall = func(info *kernel.StallInfo) *kernel.Violation {
		waiting := map[int]bool{}
		for _, id := range info.MutexBlocked {
			t := k.TaskOfGoid(id)
			if t == nil || t.Idx >= nTasks {
				return nil
			}
			waiting[t.Idx] = true
		}
		for i := range inAPI {
			if !waiting[i] && inAPI[i].Load() > 0 {
				return nil
			}
		}

		return &kernel.Violation{
			Class: "deadlock",
			Site:  "JSONHybridHandler.Handle",
			Msg:   "a task waits for a lock inside a handler call while no other task is inside the code under test: nobody can ever release it (a lock taken twice on one call path, or left locked by a finished call)",
		}
	}
	running = true

	for ti := 0; ti < nTasks; ti++ {
		ti := ti
		k.Go("T"+kernel.Itoa(ti), false, func() {
			var own slog.Handler
			for _, st := range plans[ti] {
				st := st
				k.Yield("op")
				if st.newRoot {
					inAPI[ti].Add(1)
					own = slogutil.NewJSONHybridHandler(dst, opts)
					inAPI[ti].Add(-1)
					k.Yield("constructed")
				}
				if st.deriveOf >= 0 {
					inAPI[ti].Add(1)
					own = nodes[st.deriveOf].h.WithAttrs(st.attrs)
					inAPI[ti].Add(-1)
					k.Yield("derived")
				}
				h := own
				if st.node >= 0 {
					h = nodes[st.node].h
				}
				inAPI[ti].Add(1)
				enabled := h.Enabled(st.ctx, st.rec.Level)
				inAPI[ti].Add(-1)
				if enabled != (st.rec.Level >= cfgLevel) {
					k.Report("enabled", "JSONHybridHandler.Enabled", fmt.Sprintf(
						"handler %s (configured level %v): Enabled(%v) = %v", st.name, cfgLevel, st.rec.Level, enabled))

					return
				}
				if !enabled {
					// "Every record handled": Handle does not filter; the level
					// is what Enabled is for.
					if !st.force {
						continue
					}
					k.Tell("forced", func() { rc.Stats.Probe("handled-although-not-enabled") })
				}
				// Each Handle call gets its own record, as slog.Logger does,
				// unless the record is one that is handed out repeatedly.
				rec := st.rec
				if !st.shared {
					rec = rec.Clone()
				}
				want := st.want
				k.Tell("handle.begin", func() { w.curFam[ti] = st.fam })
				inAPI[ti].Add(1)
				err, pv, stack := safeHandle(h, st.ctx, rec)
				inAPI[ti].Add(-1)
				if pv == error(errWriterPanic) {
					// The injected fault: no line for this record.
					k.Tell("writer-panicked", func() { rc.Stats.Fault("writer-panicked") })

					continue
				}
				if pv != nil {
					k.Report("panic", kernel.PanicSite(stack), fmt.Sprintf("Handle panicked: %v\n%s", pv, stack))

					return
				}
				// An error returned by Handle is not constrained by the
				// statement; the output checks decide.
				_ = err
				k.Tell("handled", func() {
					done = append(done, handled{task: ti, seq: seqs[ti], id: st.id, level: st.rec.Level, want: want, optional: w.famFailed[st.fam]})
					seqs[ti]++
				})
			}
		})
	}

	k.Run()
	if !k.Failed() && k.HarnessErr == "" && k.Inconclusive == "" {
		for _, t := range k.Tasks() {
			if !t.Daemon && !t.Exited() {
				k.Fail("deadlock", "JSONHybridHandler.Handle", "task "+t.Name+" can never run again (parked at "+t.ParkedSite()+")")

				break
			}
		}
	}
	failed := k.Failed()
	k.Finish()
	rc.Adopt(k)
	if failed || k.HarnessErr != "" || k.Inconclusive != "" {
		return
	}
	checkOutput(rc, w.buf, done)
}

// herePC returns a program counter inside this package, as slog.Logger
// records the caller's.
func herePC() uintptr {
	var pcs [1]uintptr
	runtime.Callers(1, pcs[:])

	return pcs[0]
}

func safeHandle(h slog.Handler, ctx context.Context, r slog.Record) (err error, pv any, stack string) {
	defer func() {
		if v := recover(); v != nil {
			if kernel.IsAbort(v) {
				panic(v)
			}
			pv, stack = v, string(debug.Stack())
		}
	}()

	return h.Handle(ctx, r), nil, ""
}

func btoa(b bool) string {
	if b {
		return "1"
	}

	return "0"
}

// parseLine checks, at token level, that line is one JSON object whose
// members are exactly "severity" and "message" (strings), once each.
func parseLine(line []byte) (o outLine, err error) {
	dec := json.NewDecoder(bytes.NewReader(line))
	tok, err := dec.Token()
	if err != nil || tok != json.Delim('{') {
		return o, fmt.Errorf("not a JSON object: %v", err)
	}
	seen := map[string]bool{}
	for dec.More() {
		kt, err := dec.Token()
		if err != nil {
			return o, err
		}
		key, ok := kt.(string)
		if !ok {
			return o, fmt.Errorf("non-string key %v", kt)
		}
		if seen[key] {
			return o, fmt.Errorf("duplicate member %q", key)
		}
		seen[key] = true
		vt, err := dec.Token()
		if err != nil {
			return o, err
		}
		val, ok := vt.(string)
		if !ok {
			return o, fmt.Errorf("member %q is not a string", key)
		}
		switch key {
		case "severity":
			o.severity = val
		case "message":
			o.message = val
		default:
			return o, fmt.Errorf("unexpected member %q", key)
		}
	}
	if tok, err = dec.Token(); err != nil || tok != json.Delim('}') {
		return o, fmt.Errorf("object not closed: %v", err)
	}
	if _, err = dec.Token(); err != io.EOF {
		return o, fmt.Errorf("trailing data after the object")
	}
	if !seen["severity"] || !seen["message"] {
		return o, fmt.Errorf("missing member (have %v)", seen)
	}

	return o, nil
}

func checkOutput(rc *kernel.RunCtx, out []byte, done []handled) {
	site := "JSONHybridHandler.Handle"
	if len(out) > 0 && out[len(out)-1] != '\n' {
		rc.Fail("output", site, fmt.Sprintf("output does not end with a newline: %q", out))

		return
	}
	var lines []outLine
	if len(out) > 0 {
		for _, l := range bytes.Split(out[:len(out)-1], []byte{'\n'}) {
			o, err := parseLine(l)
			if err != nil {
				rc.Fail("malformed-line", site, fmt.Sprintf("line %q: %v", l, err))

				return
			}
			lines = append(lines, o)
		}
	}
	nOptional := 0
	for _, d := range done {
		if d.optional {
			nOptional++
		}
	}
	if len(lines) > len(done) || len(lines) < len(done)-nOptional {
		rc.Fail("line-count", site, fmt.Sprintf("%d records were handled (%d of them through handlers whose writer had failed: their lines may be missing) but the writer holds %d lines:\n%s",
			len(done), nOptional, len(lines), out))

		return
	}
	// Multiset comparison of (severity, message): every required line is
	// there, and every line there is a required or an optional one.
	want := map[outLine]int{}
	optional := map[outLine]int{}
	for _, d := range done {
		sev := "NORMAL"
		if d.level >= slog.LevelError {
			sev = "ERROR"
		}
		// The JSON encoder replaces invalid UTF-8 by U+FFFD; slog.TextHandler
		// output is valid UTF-8 (it quotes such strings), so this is identity.
		l := outLine{severity: sev, message: strings.ToValidUTF8(d.want, "�")}
		if d.optional {
			optional[l]++
		} else {
			want[l]++
		}
	}
	for _, l := range lines {
		if want[l] > 0 || optional[l] == 0 {
			want[l]--
		} else {
			optional[l]--
		}
	}
	var diffs []string
	for l, n := range want {
		if n > 0 {
			diffs = append(diffs, fmt.Sprintf("missing  %q %q", l.severity, l.message))
		} else if n < 0 {
			diffs = append(diffs, fmt.Sprintf("unexpected %q %q", l.severity, l.message))
		}
	}
	if len(diffs) > 0 {
		sort.Strings(diffs)
		rc.Fail("wrong-line", site, "output lines differ from slog.TextHandler's rendering of the handled records with the chain's attributes appended:\n"+strings.Join(diffs, "\n"))

		return
	}
	// Program order per task.
	pos := map[outLine][]int{}
	for i, l := range lines {
		pos[l] = append(pos[l], i)
	}
	last := map[int]int{}
	byTask := map[int][]handled{}
	for _, d := range done {
		byTask[d.task] = append(byTask[d.task], d)
	}
	for task, ds := range byTask {
		sort.Slice(ds, func(i, j int) bool { return ds[i].seq < ds[j].seq })
		last[task] = -1
		for _, d := range ds {
			sev := "NORMAL"
			if d.level >= slog.LevelError {
				sev = "ERROR"
			}
			ps := pos[outLine{severity: sev, message: strings.ToValidUTF8(d.want, "�")}]
			ok := false
			for _, p := range ps {
				if p > last[task] {
					last[task] = p
					ok = true

					break
				}
			}
			if !ok {
				// Program order of one task's lines is natural for a
				// synchronous handler but not part of the statement.
				rc.Stats.Probe("task-order-not-preserved")

				return
			}
		}
	}
}

// overlayHooks is set by autoyield_test.go when the check is built with the
// statement-level yield overlay.
var overlayHooks func()

// simsyncHooks is set by simsync_test.go when the check is built with
// simulated mutexes.
var simsyncHooks func()
