module verif

go 1.26

require (
	github.com/AdguardTeam/golibs v0.0.0
	github.com/anishathalye/porcupine v1.3.0
)

replace github.com/AdguardTeam/golibs => /repo
