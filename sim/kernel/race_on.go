//go:build race

package kernel

import (
	"runtime"
	"unsafe"
)

// RaceEnabled reports whether the binary was built with the race detector.
const RaceEnabled = true

func raceDisable()                      { runtime.RaceDisable() }
func raceEnable()                       { runtime.RaceEnable() }
func raceAcquire(p unsafe.Pointer)      { runtime.RaceAcquire(p) }
func raceReleaseMerge(p unsafe.Pointer) { runtime.RaceReleaseMerge(p) }
func raceRelease(p unsafe.Pointer)      { runtime.RaceRelease(p) }
func raceErrors() int                   { return runtime.RaceErrors() }
