// Package c20 decides property C20: httputil.Wrap keeps the middleware order
// and LogMiddleware keeps concurrent requests isolated although it recycles
// request, attribute-slice and response-writer objects through pools.  Real
// code: github.com/AdguardTeam/golibs/netutil/httputil and syncutil.Pool.  The
// simulator owns goroutine scheduling, what the three pools return, and the
// behaviour of the inner handler, the other middlewares and the base log
// handler.
package c20

import (
	"bufio"
	"context"
	"errors"
	"fmt"
	"io"
	"log/slog"
	"net"
	"net/http"
	"net/http/httptest"
	"regexp"
	"runtime/debug"
	"strings"
	"sync"
	"testing"

	aglog "github.com/AdguardTeam/golibs/log"
	"github.com/AdguardTeam/golibs/logutil/slogutil"
	"github.com/AdguardTeam/golibs/netutil/httputil"
	"github.com/AdguardTeam/golibs/syncutil"

	"verif/sim/kernel"
)

func TestWorker(t *testing.T) {
	kernel.WorkerMain(t, &kernel.Check{
		ID:     "C20",
		Bubble: true,
		Setup: func() {
			syncutil.SimHook = kernel.HookSite
			syncutil.SimPoolGet = kernel.PoolGet
			syncutil.SimPoolPut = kernel.PoolPut
			if overlayHooks != nil {
				overlayHooks()
			}
			if simsyncHooks != nil {
				simsyncHooks()
			}
		},
		Run: run,
	})
}

// overlayHooks is set by autoyield_test.go when the check is built with the
// statement-level yield overlay.
var overlayHooks func()

type ctxKey struct{}

// reqSpec is everything that is unique to one request.
type reqSpec struct {
	id      int
	method  string
	url     string
	host    string
	raddr   string
	uri     string
	hdr     string
	body    string
	ctxVal  string
	status  int    // 0: the handler sets none
	early   int    // > 0: an informational 1xx header sent before the final status
	earlyN  int    // how many times that informational header is sent (each time with another Link header)
	emptyW  bool   // the handler's first write is a zero-length one, made before it sets its status (the write commits 200)
	lateHdr bool   // the handler changes its response header after the response has been committed (no effect, says net/http)
	failAt  int    // >= 0: the client is gone from its failAt-th body write on
	strW    bool   // the client's ResponseWriter also implements io.StringWriter
	trailer string // != "": value of the trailer the request body announces
	method2 string // what a rewriting middleware in the chain turns the method into
	uri2    string // ... and the request URI
	hMethod string // method and request URI the wrapped handler must observe
	hURI    string
	lMethod string // method and request URI its context logger must carry
	lURI    string
	panics  bool // the handler panics with http.ErrAbortHandler after replying
	reply   string
	wrapped int // which of the Wrap results serves it
	req     *http.Request
}

// world is the state shared by the harness's handler, middlewares and log
// handler.  Fields marked (S) are touched by the scheduler goroutine only.
type world struct {
	k     *kernel.Kernel
	rc    *kernel.RunCtx
	specs []*reqSpec
	cur   []int            // (S) task index -> id of the request it is serving, -1 none
	trail map[int][]string // (S) request id -> sequence of "mw<j>" / "handler"
	logs  map[int][]logRec // (S) request id -> records seen by the base log handler
	keep  bool             // base log handler retains the attribute slice given to WithAttrs
	level slog.Level       // base log handler's level
	rewr  bool             // a rewriting middleware is in the chain
}

type logRec struct {
	msg  string
	code int
	has  bool
}

// me returns the id of the request served by the calling task.
func (w *world) me(site string) int {
	return w.k.Ask(site, func() any {
		t := w.k.LastRun()
		if t == nil || t.Idx >= len(w.cur) {
			return -1
		}

		return w.cur[t.Idx]
	}).(int)
}

// recMw is a recording middleware.
type recMw struct {
	w *world
	j int
}

func (m recMw) Wrap(h http.Handler) http.Handler {
	return http.HandlerFunc(func(rw http.ResponseWriter, r *http.Request) {
		j := m.j
		w := m.w
		id := w.me("mw.enter")
		w.k.Tell("mw.note", func() { w.trail[id] = append(w.trail[id], "mw"+kernel.Itoa(j)) })
		h.ServeHTTP(rw, r)
	})
}

// rewriteMw is what a method-override or prefix-rewriting middleware does: it
// hands a derived request (same context) to the next handler.
type rewriteMw struct {
	w *world
	j int
}

func (m rewriteMw) Wrap(h http.Handler) http.Handler {
	return http.HandlerFunc(func(rw http.ResponseWriter, r *http.Request) {
		j := m.j
		w := m.w
		id := w.me("rewrite.enter")
		w.k.Tell("rewrite.note", func() { w.trail[id] = append(w.trail[id], "mw"+kernel.Itoa(j)) })
		if id < 0 {
			h.ServeHTTP(rw, r)

			return
		}
		sp := w.specs[id]
		// A shallow copy, as Request.WithContext makes.
		r2 := r.WithContext(r.Context())
		r2.Method = sp.method2
		r2.RequestURI = sp.uri2
		h.ServeHTTP(rw, r2)
	})
}

// logMwAt wraps the real LogMiddleware so that its position is recorded too.
type logMwAt struct {
	w  *world
	mw *httputil.LogMiddleware
	j  int
}

func (m logMwAt) Wrap(h http.Handler) http.Handler {
	inner := m.mw.Wrap(h)

	return http.HandlerFunc(func(rw http.ResponseWriter, r *http.Request) {
		j := m.j
		w := m.w
		id := w.me("logmw.enter")
		w.k.Tell("logmw.note", func() { w.trail[id] = append(w.trail[id], "mw"+kernel.Itoa(j)) })
		inner.ServeHTTP(rw, r)
	})
}

// baseHandler is the slog.Handler of the base logger given to LogMiddleware.
type baseHandler struct {
	w     *world
	attrs []slog.Attr
}

func (h *baseHandler) Enabled(_ context.Context, l slog.Level) bool { return l >= h.w.level }

func (h *baseHandler) WithAttrs(attrs []slog.Attr) slog.Handler {
	// "The Handler owns the slice: it may retain, modify or discard it."
	if h.w.keep {
		return &baseHandler{w: h.w, attrs: attrs}
	}

	return &baseHandler{w: h.w, attrs: append([]slog.Attr(nil), attrs...)}
}

func (h *baseHandler) WithGroup(string) slog.Handler { return h }

func (h *baseHandler) Handle(_ context.Context, r slog.Record) error {
	w := h.w
	id := w.me("log.handle")
	if id < 0 {
		w.k.Report("harness", "baseHandler", "log record outside a request")

		return nil
	}
	sp := w.specs[id]
	got := map[string]string{}
	for _, a := range h.attrs {
		got[a.Key] = a.Value.String()
	}
	// The handler's own record comes from the logger in its context, which
	// must describe the request as the handler received it; a record of a
	// LogMiddleware itself describes the request as that middleware received
	// it (before or after the rewriting middleware, if there is one).
	wantMethod, wantURI := sp.lMethod, sp.lURI
	if r.Message != "inner" && w.rewr && got["method"] != wantMethod {
		if wantMethod == sp.method {
			wantMethod, wantURI = sp.method2, sp.uri2
		} else {
			wantMethod, wantURI = sp.method, sp.uri
		}
	}
	if len(h.attrs) != 4 || got["host"] != sp.host || got["method"] != wantMethod ||
		got["raddr"] != sp.raddr || got["request_uri"] != wantURI {
		w.k.Report("foreign-log-attrs", "LogMiddleware.Wrap", fmt.Sprintf(
			"record %q logged while serving request %d carries logger attributes %v, want host=%s method=%s raddr=%s request_uri=%s",
			r.Message, id, h.attrs, sp.host, wantMethod, sp.raddr, wantURI))

		return nil
	}
	rec := logRec{msg: r.Message}
	r.Attrs(func(a slog.Attr) bool {
		if a.Key == "code" {
			rec.code, rec.has = int(a.Value.Int64()), true
		}

		return true
	})
	w.k.Tell("log.note", func() { w.logs[id] = append(w.logs[id], rec) })

	return nil
}

// innerHandler is the wrapped handler.
func (w *world) innerHandler(rw http.ResponseWriter, r *http.Request) {
	k := w.k
	id := w.me("handler.enter")
	if id < 0 {
		k.Report("harness", "innerHandler", "handler invoked outside a request")

		return
	}
	sp := w.specs[id]
	k.Tell("handler.note", func() { w.trail[id] = append(w.trail[id], "handler") })

	check := func(what, got, want string) bool {
		if got != want {
			k.Report("foreign-request", "LogMiddleware.Wrap", fmt.Sprintf(
				"handler invocation for request %d observes %s = %q, want its own %q", id, what, got, want))

			return false
		}

		return true
	}
	observe := func() bool {
		ctxVal, _ := r.Context().Value(ctxKey{}).(string)

		return check("method", r.Method, sp.hMethod) && check("URL", r.URL.String(), sp.url) &&
			check("host", r.Host, sp.host) && check("header X-Id", r.Header.Get("X-Id"), sp.hdr) &&
			check("remote address", r.RemoteAddr, sp.raddr) && check("request URI", r.RequestURI, sp.hURI) &&
			check("context value", ctxVal, sp.ctxVal)
	}
	if !observe() {
		return
	}
	k.Yield("handler.1")
	l, ok := slogutil.LoggerFromContext(r.Context())
	if !ok {
		k.Report("no-logger", "LogMiddleware.Wrap", "the request context carries no logger")

		return
	}
	l.Log(r.Context(), slog.LevelError, "inner", "rid", id)
	k.Yield("handler.2")
	body, _ := io.ReadAll(r.Body)
	if !check("body", string(body), sp.body) || !observe() {
		return
	}
	if sp.trailer != "" && !check("trailer X-Trailer (available once the body has been read)", r.Trailer.Get("X-Trailer"), sp.trailer) {
		return
	}
	rw.Header().Set("X-Reply", "reply-"+kernel.Itoa(id))
	for i := 0; sp.early != 0 && i < sp.earlyN; i++ {
		rw.Header().Set("Link", "</hint-"+kernel.Itoa(id)+"-"+kernel.Itoa(i)+">")
		rw.WriteHeader(sp.early)
		k.Yield("handler.early")
	}
	if sp.emptyW {
		_, _ = rw.Write(nil)
		k.Yield("handler.empty-write")
	}
	if sp.status != 0 {
		rw.WriteHeader(sp.status)
		k.Yield("handler.3")
	}
	if sp.status == http.StatusSwitchingProtocols {
		// The final status of an upgrade; no body follows, the handler takes
		// the connection over.
		if hj, ok := rw.(http.Hijacker); ok {
			_, _, _ = hj.Hijack()
			k.Tell("hijacked", func() { w.rc.Stats.Probe("connection-hijacked") })
		}

		return
	}
	_, _ = io.WriteString(rw, sp.reply[:len(sp.reply)/2])
	if sp.lateHdr {
		rw.Header().Set("X-Reply", "too late")
	}
	k.Yield("handler.4")
	_, _ = io.WriteString(rw, sp.reply[len(sp.reply)/2:])
	if !observe() {
		return
	}
	k.Yield("handler.5")
	if sp.panics {
		// What net/http documents for aborting a response.
		panic(http.ErrAbortHandler)
	}
}

// clientRW is the client's end of one request: a ResponseWriter with
// net/http's semantics for status codes (informational 1xx headers do not
// end the header phase, except 101; the first final status wins; Write
// implies 200).  A client that has gone away fails every later body write.
type clientRW struct {
	hdr    http.Header
	sent   http.Header // the header as it was when the response was committed
	body   []byte
	infos  []int
	links  []string // the Link header sent with each informational response
	code   int
	failAt int
	writes int
}

// clientRWS is a client end that also offers WriteString, as the server's
// own ResponseWriter does.
type clientRWS struct{ *clientRW }

func (c clientRWS) WriteString(s string) (int, error) { return c.clientRW.Write([]byte(s)) }

// trailerBody is a request body that, as net/http's does, fills in the values
// of the announced trailers - in the Trailer map of the request it belongs to -
// when it reaches EOF.
type trailerBody struct {
	io.Reader
	hdr http.Header
	val string
}

func (b *trailerBody) Read(p []byte) (n int, err error) {
	n, err = b.Reader.Read(p)
	if err == io.EOF {
		b.hdr["X-Trailer"] = []string{b.val}
	}

	return n, err
}

func (b *trailerBody) Close() error { return nil }

var errClientGone = errors.New("verif: client went away")

func (c *clientRW) Header() http.Header { return c.hdr }

func (c *clientRW) WriteHeader(code int) {
	switch {
	case c.code != 0:
		// Superfluous: the response has been committed.
	case code >= 100 && code < 200 && code != http.StatusSwitchingProtocols:
		c.infos = append(c.infos, code)
		c.links = append(c.links, c.hdr.Get("Link"))
	default:
		c.code = code
		c.sent = c.hdr.Clone()
	}
}

// Hijack implements http.Hijacker: the connection (none here) is the
// handler's from now on.
func (c *clientRW) Hijack() (net.Conn, *bufio.ReadWriter, error) { return nil, nil, nil }

func (c *clientRW) Write(b []byte) (int, error) {
	if c.code == 0 {
		c.code = http.StatusOK
		c.sent = c.hdr.Clone()
	}
	c.writes++
	if c.failAt >= 0 && c.writes > c.failAt {
		return 0, errClientGone
	}
	c.body = append(c.body, b...)

	return len(b), nil
}

func run(rc *kernel.RunCtx) {
	tp := rc.Tape
	k := kernel.NewKernel(tp)
	k.KeepLog = rc.KeepLog
	k.EnablePool(rc.Stats)

	w := &world{k: k, rc: rc, trail: map[int][]string{}, logs: map[int][]logRec{}}
	w.keep = tp.Bool(1, 2)
	w.level = slog.LevelInfo
	mwLevel := slog.LevelInfo
	switch tp.Choose(4) {
	case 0:
		mwLevel = slog.LevelDebug // "started"/"finished" disabled
	case 1:
		w.level = slog.LevelDebug
		mwLevel = slog.LevelDebug
	}
	logEnabled := mwLevel >= w.level

	base := slog.New(&baseHandler{w: w})
	// In some runs the base logger is one of the library's own (a real handler
	// writing to a sink) instead of the recording stub: whatever its format,
	// the handler's own record must carry its request's attributes.
	var sink *lineSink
	realFormat := slogutil.Format("")
	if tp.Bool(1, 4) {
		sink = &lineSink{}
		realFormat = []slogutil.Format{slogutil.FormatAdGuardLegacy, slogutil.FormatText, slogutil.FormatJSONHybrid, slogutil.FormatJSON, slogutil.FormatDefault}[tp.Choose(5)]
		if realFormat == slogutil.FormatAdGuardLegacy {
			aglog.SetOutput(sink)
			aglog.SetFlags(0)
		}
		base = slogutil.New(&slogutil.Config{Output: sink, Format: realFormat, Level: slog.LevelInfo})
		mwLevel, w.level = slog.LevelInfo, slog.LevelInfo
		rc.Stats.Probe("real-base-logger-" + string(realFormat))
	}
	logMw := httputil.NewLogMiddleware(base, mwLevel)

	// Middleware list: the LogMiddleware at a drawn position among 0-3
	// recording middlewares; sometimes a second LogMiddleware in the chain.
	nRec := tp.Choose(4)
	pos := tp.Choose(nRec + 1)
	pos2 := -1
	if nRec > 0 && tp.Bool(1, 3) {
		pos2 = tp.Choose(nRec + 1)
		if pos2 == pos {
			pos2 = -1
		}
	}
	// The second one may be the same instance (a LogMiddleware that wraps both
	// a router and handlers registered in it), and one of the other
	// middlewares may rewrite method and request URI.
	sameInstance := pos2 >= 0 && tp.Bool(1, 2)
	rewrPos := -1
	if nRec > 0 && tp.Bool(1, 3) {
		rewrPos = tp.Choose(nRec + 1)
		if lo, hi := min(pos, pos2), max(pos, pos2); lo >= 0 && hi-lo >= 2 && tp.Bool(1, 2) {
			rewrPos = lo + 1 + tp.Choose(hi-lo-1)
		}
		if rewrPos == pos || rewrPos == pos2 {
			rewrPos = -1
		}
	}
	w.rewr = rewrPos >= 0
	lastLog := max(pos, pos2)
	nLogMw := 1
	var mws []httputil.Middleware
	for j := 0; j <= nRec; j++ {
		switch j {
		case pos:
			mws = append(mws, logMwAt{w: w, mw: logMw, j: j})
		case pos2:
			nLogMw = 2
			mw2 := logMw
			if !sameInstance {
				mw2 = httputil.NewLogMiddleware(base, mwLevel)
			}
			mws = append(mws, logMwAt{w: w, mw: mw2, j: j})
		case rewrPos:
			mws = append(mws, rewriteMw{w: w, j: j})
		default:
			mws = append(mws, recMw{w: w, j: j})
		}
	}
	if sameInstance {
		rc.Stats.Probe("same-logmw-twice")
	}
	if w.rewr && pos2 >= 0 && rewrPos < lastLog && rewrPos > min(pos, pos2) {
		rc.Stats.Probe("rewrite-between-logmws")
	}
	// Wrap is called one to three times with the same list.
	nWrap := tp.Range(1, 3)
	var wrapped []http.Handler
	for i := 0; i < nWrap; i++ {
		wrapped = append(wrapped, httputil.Wrap(http.HandlerFunc(w.innerHandler), mws...))
	}

	// The server's base context may carry a logger already (what
	// http.Server.BaseContext is used for); every request context derives
	// from it.
	baseCtx := context.Background()
	if tp.Bool(1, 2) {
		baseCtx = slogutil.ContextWithLogger(baseCtx, base)
		rc.Stats.Probe("base-context-carries-a-logger")
	}
	nTasks := tp.Range(1, 5)
	// Some runs are crowds: many clients with one request each, so that more
	// requests are in flight at once than the usual handful (every pool is
	// then emptied and refilled by many, and anything kept per request in
	// progress is held many times over).
	crowd := tp.Bool(1, 48)
	if crowd {
		nTasks = tp.Range(6, 40)
		rc.Stats.Probe("crowd-of-clients")
	}
	plans := make([][]*reqSpec, nTasks)
	methods := []string{"GET", "POST", "PUT", "DELETE", "PATCH"}
	for ti := range plans {
		for n := tp.Range(1, 3); n > 0; n-- {
			if crowd && len(plans[ti]) > 0 {
				break
			}
			id := len(w.specs)
			sp := &reqSpec{
				id:      id,
				method:  methods[tp.Choose(len(methods))],
				url:     fmt.Sprintf("http://host%d.example/path/%d?q=%d", id, id, id),
				host:    fmt.Sprintf("host%d.example", id),
				raddr:   fmt.Sprintf("192.0.2.%d:%d", id+1, 1000+id),
				uri:     fmt.Sprintf("/path/%d?q=%d", id, id),
				hdr:     fmt.Sprintf("id-%d", id),
				body:    fmt.Sprintf("request body %d", id),
				ctxVal:  fmt.Sprintf("ctx-%d", id),
				reply:   fmt.Sprintf("reply to request %d", id),
				wrapped: tp.Choose(nWrap),
			}
			if tp.Bool(2, 3) {
				sp.status = []int{200, 201, 204, 400, 404, 500, 503, 101}[tp.Choose(8)]
				if sp.status != http.StatusSwitchingProtocols && tp.Bool(1, 6) {
					sp.early = []int{100, 102, 103}[tp.Choose(3)]
					sp.earlyN = 1
					if tp.Bool(1, 3) {
						sp.earlyN = 2
					}
				}
			}
			sp.failAt = -1
			if tp.Bool(1, 6) {
				sp.failAt = tp.Choose(2)
				rc.Stats.Fault("client-write-error")
			}
			sp.panics = tp.Bool(1, 10)
			if sp.status != http.StatusSwitchingProtocols && tp.Bool(1, 8) {
				sp.emptyW = true
				rc.Stats.Probe("handler-starts-with-empty-write")
			}
			sp.lateHdr = tp.Bool(1, 4)
			// Twins: a request that has method, host and request URI (and
			// sometimes the remote address) in common with an earlier one but
			// its own headers, body, context value, status and reply.
			if len(w.specs) > 0 && tp.Bool(1, 3) {
				e := w.specs[tp.Choose(len(w.specs))]
				sp.method, sp.host, sp.uri = e.method, e.host, e.uri
				if tp.Bool(1, 2) {
					sp.raddr = e.raddr
				}
				rc.Stats.Probe("twin-request")
			}
			// Requests made in-process need not have every field set.
			if tp.Bool(1, 6) {
				sp.raddr = ""
			}
			if tp.Bool(1, 8) {
				sp.uri = ""
			}
			if tp.Bool(1, 10) {
				sp.host = ""
			}
			sp.hMethod, sp.hURI, sp.lMethod, sp.lURI = sp.method, sp.uri, sp.method, sp.uri
			if w.rewr {
				sp.method2 = methods[(indexOf(methods, sp.method)+1+tp.Choose(len(methods)-1))%len(methods)]
				sp.uri2 = "/v2" + sp.uri
				sp.hMethod, sp.hURI = sp.method2, sp.uri2
				if rewrPos < lastLog {
					sp.lMethod, sp.lURI = sp.method2, sp.uri2
				}
			}
			sp.strW = tp.Bool(1, 3)
			if tp.Bool(1, 5) {
				sp.trailer = fmt.Sprintf("trailer-%d", id)
			}
			r := httptest.NewRequest(sp.method, sp.url, strings.NewReader(sp.body))
			if sp.trailer != "" {
				r.Trailer = http.Header{"X-Trailer": nil}
				r.Body = &trailerBody{Reader: strings.NewReader(sp.body), hdr: r.Trailer, val: sp.trailer}
			}
			r.Host = sp.host
			r.RemoteAddr = sp.raddr
			r.RequestURI = sp.uri
			r.Header.Set("X-Id", sp.hdr)
			reqCtx := context.WithValue(baseCtx, ctxKey{}, sp.ctxVal)
			if tp.Bool(1, 8) {
				// The client has given up: the request's context is done while
				// the handler runs.  What the handler logs and the "finished"
				// record are due all the same.
				c, cancel := context.WithCancel(reqCtx)
				cancel()
				reqCtx = c
				rc.Stats.Fault("request-context-done")
			}
			sp.req = r.WithContext(reqCtx)
			w.specs = append(w.specs, sp)
			plans[ti] = append(plans[ti], sp)
		}
	}
	w.cur = make([]int, nTasks)
	for i := range w.cur {
		w.cur[i] = -1
	}
	k.Logf("config tasks=", kernel.Itoa(nTasks), " requests=", kernel.Itoa(len(w.specs)), " middlewares=", kernel.Itoa(nRec+1),
		" logmw at ", kernel.Itoa(pos), " wraps=", kernel.Itoa(nWrap), " retain=", btoa(w.keep), " log=", btoa(logEnabled))

	type result struct {
		code  int
		body  string
		early int
		links string // Link headers of the informational responses, in order
		reply string // X-Reply header the response was committed with
	}
	results := map[int]result{}

	for ti := 0; ti < nTasks; ti++ {
		ti := ti
		k.Go("T"+kernel.Itoa(ti), false, func() {
			for _, sp := range plans[ti] {
				sp := sp
				k.Ask("request.begin", func() any { w.cur[ti] = sp.id; return nil })
				rec := &clientRW{hdr: http.Header{}, failAt: sp.failAt}
				var crw http.ResponseWriter = rec
				if sp.strW {
					crw = clientRWS{rec}
				}
				pv, stack := serve(wrapped[sp.wrapped], crw, sp.req)
				if pv != nil && !(sp.panics && pv == http.ErrAbortHandler) {
					k.Report("panic", kernel.PanicSite(stack), fmt.Sprintf("ServeHTTP panicked: %v\n%s", pv, stack))

					return
				}
				res := result{code: rec.code, body: string(rec.body), early: len(rec.infos), links: strings.Join(rec.links, " ")}
				if rec.code == 0 {
					res.code = http.StatusOK // what the server sends when the handler set nothing
					rec.sent = rec.hdr.Clone()
				}
				res.reply = rec.sent.Get("X-Reply")
				k.Tell("request.end", func() {
					w.cur[ti] = -1
					results[sp.id] = res
					k.Logf("  request ", kernel.Itoa(sp.id), " done code=", kernel.Itoa(res.code))
				})
			}
		})
	}

	k.Run()
	if !k.Failed() && k.HarnessErr == "" && k.Inconclusive == "" {
		for _, t := range k.Tasks() {
			if !t.Daemon && !t.Exited() {
				k.Fail("deadlock", "LogMiddleware.Wrap", "task "+t.Name+" can never run again (parked at "+t.ParkedSite()+")")

				break
			}
		}
	}
	failed := k.Failed()
	k.Finish()
	rc.Adopt(k)
	if failed || k.HarnessErr != "" || k.Inconclusive != "" {
		return
	}

	if sink != nil {
		checkSink(rc, w.specs, sink.buf, realFormat)
		if rc.Violation != nil {
			return
		}
	}
	// Post-run oracle.
	for _, sp := range w.specs {
		var wantTrail []string
		for j := 0; j <= nRec; j++ {
			wantTrail = append(wantTrail, "mw"+kernel.Itoa(j))
		}
		wantTrail = append(wantTrail, "handler")
		if strings.Join(w.trail[sp.id], ",") != strings.Join(wantTrail, ",") {
			rc.Fail("order", "Wrap", fmt.Sprintf("request %d (served by Wrap result #%d of %d built from the same list) passed through %v, want %v",
				sp.id, sp.wrapped, nWrap, w.trail[sp.id], wantTrail))

			return
		}
		res := results[sp.id]
		wantCode := sp.status
		if wantCode == 0 {
			wantCode = http.StatusOK
		}
		// What the handler set and what its client got differ in one case: a
		// write made before the status commits 200 (net/http), and the status
		// set afterwards is superfluous.  Which of the two the "finished"
		// record should report is not settled by the statement: not judged.
		setCode := wantCode
		if sp.emptyW {
			wantCode = http.StatusOK
		}
		wantEarly := 0
		var wantLinks []string
		if sp.early != 0 {
			wantEarly = sp.earlyN
			for i := 0; i < sp.earlyN; i++ {
				wantLinks = append(wantLinks, "</hint-"+kernel.Itoa(sp.id)+"-"+kernel.Itoa(i)+">")
			}
		}
		wantBody := sp.reply
		switch {
		case sp.status == http.StatusSwitchingProtocols:
			wantBody = ""
		case sp.failAt == 0, sp.failAt == 1 && sp.emptyW:
			wantBody = ""
		case sp.failAt == 1:
			wantBody = sp.reply[:len(sp.reply)/2]
		}
		wantReply := "reply-" + kernel.Itoa(sp.id)
		if res.code != wantCode || res.body != wantBody || res.early != wantEarly || res.links != strings.Join(wantLinks, " ") || res.reply != wantReply {
			rc.Fail("response", "LogMiddleware.Wrap", fmt.Sprintf(
				"client of request %d received code=%d body=%q X-Reply=%q (1xx: %d, Link %q), the handler wrote code=%d body=%q X-Reply=%q (1xx: %d, Link %q; client gone from body write %d on; first write empty and before the status: %v)",
				sp.id, res.code, res.body, res.reply, res.early, res.links, wantCode, wantBody, wantReply, wantEarly, strings.Join(wantLinks, " "), sp.failAt, sp.emptyW))

			return
		}
		finishedJudged := setCode == wantCode
		if sink != nil {
			// The records went to a real handler: judged below, by line.
			continue
		}
		var msgs []string
		for _, l := range w.logs[sp.id] {
			msgs = append(msgs, l.msg)
			if l.msg == "finished" && sp.panics {
				// A handler that panics does not reach SetImplicitSuccess;
				// the statement covers invocations that return.
				continue
			}
			if l.msg == "finished" && finishedJudged && (!l.has || l.code != wantCode) {
				rc.Fail("finished-code", "LogMiddleware.Wrap", fmt.Sprintf(
					"the \"finished\" record of request %d reports code=%d (present=%v), the handler set %d", sp.id, l.code, l.has, wantCode))

				return
			}
		}
		// Only the context logger's record and the "finished" record are part
		// of the statement; a "started" record is not.
		nInner, nFinished := 0, 0
		for _, m := range msgs {
			switch m {
			case "inner":
				nInner++
			case "finished":
				nFinished++
			}
		}
		// The same instance passed twice may or may not log twice.
		minFinished := nLogMw
		if sameInstance {
			minFinished = 1
		}
		if nInner != 1 || nFinished > nLogMw || (logEnabled && nFinished < minFinished) {
			rc.Fail("log-records", "LogMiddleware.Wrap", fmt.Sprintf(
				"request %d produced log records %v, want the handler's own record and (logging enabled: %v) one \"finished\" per LogMiddleware (%d in the chain)", sp.id, msgs, logEnabled, nLogMw))

			return
		}
	}
}

// lineSink collects the output of a real base logger.  Handlers serialise
// their writes; Write does not yield (a task must not be parked while it holds
// a real mutex of the standard library's log packages).
type lineSink struct {
	mu  sync.Mutex
	buf []byte
}

func (s *lineSink) Write(p []byte) (int, error) {
	s.mu.Lock()
	s.buf = append(s.buf, p...)
	s.mu.Unlock()

	return len(p), nil
}

var ridRe = regexp.MustCompile(`rid"?[=:]"?(\d+)`)

// checkSink checks every line that the inner handler logged (it carries the
// request id): it must carry that request's host, method, remote address and
// request URI as the handler's context logger has to, whatever the format.
func checkSink(rc *kernel.RunCtx, specs []*reqSpec, out []byte, format slogutil.Format) {
	seen := map[int]bool{}
	defer func() {
		for _, sp := range specs {
			if rc.Violation == nil && !seen[sp.id] {
				rc.Fail("log-records", "LogMiddleware.Wrap", fmt.Sprintf(
					"base logger of format %q: the record that the handler of request %d logged through its context logger is missing from the output", format, sp.id))
			}
		}
	}()
	for _, line := range strings.Split(string(out), "\n") {
		m := ridRe.FindStringSubmatch(line)
		if m == nil || !strings.Contains(line, "inner") {
			continue
		}
		id := 0
		for _, c := range m[1] {
			id = id*10 + int(c-'0')
		}
		if id >= len(specs) {
			continue
		}
		sp := specs[id]
		seen[id] = true
		missing := ""
		for _, f := range [][2]string{{"host", sp.host}, {"method", sp.lMethod}, {"raddr", sp.raddr}, {"request_uri", sp.lURI}} {
			if f[1] == "" {
				continue
			}
			if !strings.Contains(line, f[0]+"="+f[1]) && !strings.Contains(line, f[0]+"=\""+f[1]+"\"") &&
				!strings.Contains(line, "\""+f[0]+"\":\""+f[1]+"\"") && !strings.Contains(line, f[0]+"=\\\""+f[1]+"\\\"") {
				missing = f[0] + "=" + f[1]

				break
			}
		}
		if missing != "" {
			rc.Fail("foreign-log-attrs", "LogMiddleware.Wrap", fmt.Sprintf(
				"base logger of format %q: the record logged while serving request %d lacks %s: %s", format, id, missing, line))

			return
		}
	}
}

func serve(h http.Handler, rw http.ResponseWriter, r *http.Request) (pv any, stack string) {
	defer func() {
		if v := recover(); v != nil {
			if kernel.IsAbort(v) {
				panic(v)
			}
			pv, stack = v, string(debug.Stack())
		}
	}()
	h.ServeHTTP(rw, r)

	return nil, ""
}

func indexOf(l []string, s string) int {
	for i, v := range l {
		if v == s {
			return i
		}
	}

	return 0
}

func btoa(b bool) string {
	if b {
		return "1"
	}

	return "0"
}

// simsyncHooks is set by simsync_test.go when the check is built with
// simulated mutexes.
var simsyncHooks func()
