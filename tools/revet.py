#!/usr/bin/env python3
"""revet.py [name ...]: re-runs the registered check (quick tier, or --runs N) against every seeded change under
/verif/seeded/ in a scratch worktree and updates the verdict in its meta.json.  Evidence files are restored afterwards."""
import json, os, subprocess, sys, tempfile, shutil, time
names = [a for a in sys.argv[1:] if not a.startswith("--")]
runs = None
for a in sys.argv[1:]:
    if a.startswith("--runs="):
        runs = a.split("=")[1]
root = "/verif/seeded"
names = names or sorted(os.listdir(root))
missed = []
for name in names:
    d = os.path.join(root, name)
    meta = json.load(open(os.path.join(d, "meta.json")))
    cid = meta["property"]
    wt = tempfile.mkdtemp(prefix="revet-"); os.rmdir(wt)
    subprocess.run(["git", "-C", "/repo", "worktree", "add", "-q", "--detach", wt, "HEAD"], check=True)
    try:
        p = subprocess.run(["git", "-C", wt, "apply", "--3way", os.path.join(d, "patch.diff")], stdout=subprocess.PIPE, stderr=subprocess.STDOUT, text=True)
        if p.returncode != 0:
            print(name, "PATCH DOES NOT APPLY"); missed.append(name); continue
        cmd = [sys.executable, "/verif/run.py", cid, "--tier", "quick"] + (["--runs", runs] if runs else [])
        t0 = time.time()
        r = subprocess.run(cmd, env=dict(os.environ, VERIF_REPO=wt, VERIF_SEED="1"), stdout=subprocess.PIPE, stderr=subprocess.STDOUT, text=True)
        lines = r.stdout.splitlines()
        sigs = [l.split(":")[0].replace("violation ", "") for l in lines if l.startswith("violation ")][:5]
        meta["check"] = dict(cmd=" ".join(cmd[1:]) + " (VERIF_REPO=<patched scratch worktree>)", exit=r.returncode, wall_s=round(time.time() - t0, 1),
                             signatures=sigs, summary=[l[:400] for l in lines if " tier=" in l or l.startswith("HARNESS")][:3],
                             rechecked_at=time.strftime("%Y-%m-%dT%H:%M:%S"))
        meta["detected"] = r.returncode == 1
        json.dump(meta, open(os.path.join(d, "meta.json"), "w"), indent=1)
        print("%-10s exit=%d %s" % (name, r.returncode, sigs))
        if r.returncode != 1:
            missed.append(name)
    finally:
        subprocess.run(["git", "-C", "/repo", "worktree", "remove", "--force", wt])
        shutil.rmtree(wt, ignore_errors=True)
subprocess.run(["git", "-C", "/verif", "checkout", "--", "evidence"])
print("missed:", missed)
