// Package kernel is the deterministic-simulation kernel: one choice tape that
// decides everything, a cooperative scheduler that owns "who runs next", the
// race-detector glue that hides the scheduler's own hand-off, a simulated
// pool, clock and fault-injecting streams, a delta-debugging shrinker, and the
// worker loop that the per-property test binaries share.
package kernel

import "io"

// Rand is a splitmix64 generator.  It is the only source of randomness in the
// simulator; it is seeded from (VERIF_SEED, run index).
type Rand struct{ s uint64 }

// Mix combines two integers into a well-distributed seed.
func Mix(a, b uint64) uint64 {
	x := a*0x9E3779B97F4A7C15 ^ (b + 0x632BE59BD9B4E019)
	x ^= x >> 30
	x *= 0xBF58476D1CE4E5B9
	x ^= x >> 27
	x *= 0x94D049BB133111EB
	x ^= x >> 31

	return x
}

// NewRand returns a generator for the given seed.
func NewRand(seed uint64) *Rand { return &Rand{s: seed} }

// Uint64 returns the next value.
func (r *Rand) Uint64() uint64 {
	r.s += 0x9E3779B97F4A7C15
	z := r.s
	z = (z ^ (z >> 30)) * 0xBF58476D1CE4E5B9
	z = (z ^ (z >> 27)) * 0x94D049BB133111EB

	return z ^ (z >> 31)
}

// Intn returns a value in [0, n).  n must be positive.
func (r *Rand) Intn(n int) int { return int(r.Uint64() % uint64(n)) }

// Tape is the recorded sequence of every decision of one run.  In exploration
// mode values come from the generator and are recorded; in replay mode they
// are read back (an exhausted tape yields 0, an out-of-range value is reduced
// modulo n), which is what makes delta debugging on the tape possible.
type Tape struct {
	rng    *Rand
	in     []uint32
	pos    int
	replay bool

	// Out is the tape as consumed in this run (after clamping), i.e. the
	// canonical form of the input.
	Out []uint32

	// Sink, if set, receives every value as it is consumed (4 bytes, little
	// endian, unbuffered), so that the tape of a run that kills the process
	// survives it.
	Sink io.Writer
}

// NewTape returns an exploring tape.
func NewTape(seed uint64) *Tape { return &Tape{rng: NewRand(seed)} }

// ReplayTape returns a tape that replays vals.
func ReplayTape(vals []uint32) *Tape { return &Tape{in: vals, replay: true} }

// Replaying reports whether the tape replays recorded values.
func (t *Tape) Replaying() bool { return t.replay }

// Choose returns a value in [0, n).  n < 1 is treated as 1.
func (t *Tape) Choose(n int) int {
	return t.ChooseF(n, nil)
}

// ChooseF is like Choose but in exploration mode lets gen pick the value
// (e.g. a scheduling strategy); the value finally chosen is what is recorded,
// so replay does not depend on gen.
func (t *Tape) ChooseF(n int, gen func(r *Rand) int) int {
	if n < 1 {
		n = 1
	}

	var v int
	if t.replay {
		if t.pos < len(t.in) {
			v = int(t.in[t.pos] % uint32(n))
		}
		t.pos++
	} else if gen != nil {
		v = gen(t.rng) % n
		if v < 0 {
			v = 0
		}
	} else {
		v = t.rng.Intn(n)
	}

	t.Out = append(t.Out, uint32(v))
	if t.Sink != nil {
		var b [4]byte
		b[0], b[1], b[2], b[3] = byte(v), byte(v>>8), byte(v>>16), byte(v>>24)
		_, _ = t.Sink.Write(b[:])
	}

	return v
}

// Bool returns true with probability num/den.  The recorded value 0 always
// means false, so that shrinking removes faults rather than adding them.
func (t *Tape) Bool(num, den int) bool {
	return t.Choose(den) >= den-num
}

// Range returns a value in [lo, hi].
func (t *Tape) Range(lo, hi int) int {
	if hi < lo {
		hi = lo
	}

	return lo + t.Choose(hi-lo+1)
}

// Used returns how many values have been consumed.
func (t *Tape) Used() int { return len(t.Out) }

// HashBytes folds b into the FNV-1a style running hash h.
func HashBytes(h uint64, b []byte) uint64 {
	for _, c := range b {
		h ^= uint64(c)
		h *= 1099511628211
	}
	h ^= 0xff
	h *= 1099511628211

	return h
}

// HashInit is the initial value for HashBytes.
const HashInit uint64 = 14695981039346656037
