package kernel

import (
	"sync"
	"unsafe"
)

// PoolSim stands in for the sync.Pool behind syncutil.Pool during a run: Put
// hands the object to the scheduler, Get receives whichever stored object the
// tape picks (the worst one, eventually) or a miss, in which case the real,
// always empty pool constructs a new value.  It reproduces sync.Pool's
// documented happens-before edge (Put(x) before the Get that returns x) per
// object and nothing more, so an object that is still in use after its Put is
// seen by the race detector.  All state is owned by the scheduler goroutine.
type PoolSim struct {
	k     *Kernel
	stats *Stats
	store map[*sync.Pool][]any

	// DropPuts (out of 8) is the chance that a Put is dropped, as sync.Pool
	// is allowed to do.  MissRate (out of 8) is the chance of a miss although
	// objects are stored.  Newest makes Get prefer the most recently put
	// object.
	DropPuts int
	MissRate int
	Newest   bool
}

// EnablePool installs a simulated pool into the kernel, drawing its
// behaviour from the tape.
func (k *Kernel) EnablePool(stats *Stats) *PoolSim {
	p := &PoolSim{k: k, stats: stats, store: map[*sync.Pool][]any{}}
	switch k.Tape.Choose(4) {
	case 0:
		p.DropPuts, p.MissRate = 0, 0
	case 1:
		p.DropPuts, p.MissRate = 2, 2
	case 2:
		p.Newest = true
	default:
		p.MissRate = 1
	}
	k.pool = p

	return p
}

func ifacePtr(v any) unsafe.Pointer {
	return (*[2]unsafe.Pointer)(unsafe.Pointer(&v))[1]
}

// PoolGet is the function to install as syncutil.SimPoolGet.
func PoolGet(pool *sync.Pool) (v any, ok bool) {
	k := loadCurrent()
	if k == nil || k.pool == nil {
		return nil, false
	}
	p := k.pool
	v = k.Ask("pool.Get", func() any {
		objs := p.store[pool]
		if len(objs) == 0 {
			p.stats.Probe("pool-miss-empty")

			return nil
		}
		if p.MissRate > 0 && k.Tape.Bool(p.MissRate, 8) {
			p.stats.Fault("pool-miss-despite-stored")

			return nil
		}
		i := len(objs) - 1
		if !p.Newest {
			i = k.Tape.Choose(len(objs))
		}
		x := objs[i]
		p.store[pool] = append(objs[:i:i], objs[i+1:]...)
		p.stats.Probe("pool-hit")

		return x
	})
	if v == nil {
		return nil, false
	}
	raceAcquire(ifacePtr(v))

	return v, true
}

// PoolPut is the function to install as syncutil.SimPoolPut.
func PoolPut(pool *sync.Pool, v any) (ok bool) {
	k := loadCurrent()
	if k == nil || k.pool == nil {
		return false
	}
	p := k.pool
	raceReleaseMerge(ifacePtr(v))
	k.Tell("pool.Put", func() {
		if p.DropPuts > 0 && k.Tape.Bool(p.DropPuts, 8) {
			p.stats.Fault("pool-put-dropped")

			return
		}
		p.store[pool] = append(p.store[pool], v)
	})

	return true
}
