#!/usr/bin/env python3
"""mkpatch.py <out.diff> <file> <old> <new> [<file> <old> <new> ...]: makes a unified diff against /repo HEAD
by textual replacement in a throw-away worktree."""
import os, subprocess, sys, tempfile, shutil
out = os.path.abspath(sys.argv[1]); args = sys.argv[2:]
wt = tempfile.mkdtemp(prefix="mkpatch-"); os.rmdir(wt)
subprocess.run(["git", "-C", "/repo", "worktree", "add", "-q", "--detach", wt, "HEAD"], check=True)
try:
    for i in range(0, len(args), 3):
        f, old, new = args[i:i+3]
        p = os.path.join(wt, f); s = open(p).read()
        if s.count(old) != 1:
            print("pattern occurs %d times in %s" % (s.count(old), f)); sys.exit(1)
        open(p, "w").write(s.replace(old, new))
    d = subprocess.run(["git", "-C", wt, "diff"], stdout=subprocess.PIPE, text=True).stdout
    open(out, "w").write(d)
    print("wrote", out, len(d.splitlines()), "lines")
finally:
    subprocess.run(["git", "-C", "/repo", "worktree", "remove", "--force", wt])
