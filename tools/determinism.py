#!/usr/bin/env python3
"""Determinism self-test of the simulator: for each check, the same run indices are executed
in separate processes at GOMAXPROCS 1, 4 and 16 (and twice at 1); per-run event-log hashes,
schedule signatures, tape lengths and verdicts must be identical.

  determinism.py [ID ...] [--runs N] [--procs P]"""
import argparse, os, subprocess, sys, tempfile, shutil
sys.path.insert(0, os.path.dirname(os.path.dirname(os.path.abspath(__file__))))
import run as drv

ap = argparse.ArgumentParser()
ap.add_argument("ids", nargs="*")
ap.add_argument("--runs", type=int, default=3000)
ap.add_argument("--procs", type=int, default=8, help="processes per configuration (each gets its own slice)")
a = ap.parse_args()
ids = [i.upper() for i in a.ids] or sorted(drv.CHECKS)
bad = 0
for cid in ids:
    cfg = drv.CHECKS[cid]
    tmp = tempfile.mkdtemp(prefix="verif-det-")
    try:
        binary = drv.build(cid, cfg, "/repo", tmp)
        if binary is None:
            sys.exit(2)
        outs = {}
        for label, gmp in (("p1", "1"), ("p1b", "1"), ("p4", "4"), ("p16", "16")):
            procs = []
            for w in range(a.procs):
                name = "%s-%d" % (label, w)
                extra = dict(VERIF_MODE="explore", VERIF_SEED="7", VERIF_FROM=str(w), VERIF_TO=str(a.runs),
                             VERIF_STRIDE=str(a.procs), VERIF_TIER="quick", VERIF_RECHECK="0",
                             VERIF_HASHFILE=os.path.join(tmp, name + ".hashes"), VERIF_NOSHRINK="1")
                env = drv.worker_env(cfg, tmp, name, extra)
                env["GOMAXPROCS"] = gmp
                errf = open(os.path.join(tmp, name + ".stderr"), "w")
                procs.append((subprocess.Popen([binary, "-test.run", "^TestWorker$", "-test.timeout", "0"], cwd=tmp, env=env,
                                               stdout=errf, stderr=subprocess.STDOUT), errf))
            for p, f in procs:
                p.wait(); f.close()
            lines = []
            for w in range(a.procs):
                with open(os.path.join(tmp, "%s-%d.hashes" % (label, w))) as f:
                    lines += f.read().splitlines()
            outs[label] = sorted(lines, key=lambda l: int(l.split()[0]))
        ref = outs["p1"]
        ok = True
        for label, lines in outs.items():
            if lines != ref:
                ok = False
                diff = [(x, y) for x, y in zip(ref, lines) if x != y][:3]
                print("%s: NONDETERMINISTIC between GOMAXPROCS=1 and %s (%d vs %d lines): %s" % (cid, label, len(ref), len(lines), diff))
        viol = sum(1 for l in ref if not l.endswith(" -"))
        print("%s: %d runs x 4 configurations x %d processes: %s (%d runs with a verdict other than clean)" % (
            cid, len(ref), a.procs, "identical" if ok else "DIFFERENT", viol))
        bad += 0 if ok else 1
    finally:
        shutil.rmtree(tmp, ignore_errors=True)
sys.exit(1 if bad else 0)
