package kernel

import (
	"encoding/binary"
	"encoding/json"
	"fmt"
	"os"
	"runtime"
	"runtime/debug"
	"sort"
	"strconv"
	"strings"
	"testing"
	"testing/synctest"
	"time"
	"unsafe"
)

// Check is what a per-property test package hands to WorkerMain.
type Check struct {
	// ID is the property id.
	ID string

	// Bubble says that Run must execute inside a synctest bubble (fake time,
	// quiescence detection, scheduler).
	Bubble bool

	// Run executes one simulated run, reading every decision from rc.Tape
	// and reporting through rc.
	Run func(rc *RunCtx)

	// After, if not nil, is called after Run outside the bubble (real time
	// and free-running goroutines are available again, e.g. for porcupine).
	// It is skipped if Run already failed.
	After func(rc *RunCtx)

	// Setup, if not nil, is called once per process before the first run
	// (installing hooks).
	Setup func()

	// RaceAnywhere makes a race report without frames of the code under test
	// a violation (site "no-golibs-frame") instead of a harness error.  Only
	// the kernel's own canary uses it.
	RaceAnywhere bool
}

// Stats are accumulated over all runs of a worker.
type Stats struct {
	Faults map[string]int64 `json:"faults"`
	Probes map[string]int64 `json:"probes"`
}

// Fault counts a fault of the given kind that actually fired.
func (s *Stats) Fault(kind string) { s.Faults[kind]++ }

// Probe counts that a condition of interest was reached.
func (s *Stats) Probe(name string) { s.Probes[name]++ }

// RunCtx is the per-run context.
type RunCtx struct {
	T     *testing.T
	Tape  *Tape
	Stats *Stats
	Tier  string

	// KeepLog asks the run to keep a readable event log.
	KeepLog bool

	// Outputs.
	Violation    *Violation
	Inconclusive string
	HarnessErr   string
	Log          []string
	LogHash      uint64

	// Sig identifies the explored case (schedule or history signature);
	// NonTrivial says whether it counts as non-trivial by the check's rule.
	Sig        uint64
	NonTrivial bool

	Steps   int64
	SimTime time.Duration

	// Data carries workload state from Run to After.
	Data any

	// Nondet is set by a workload that deliberately constructed a state whose
	// outcome the Go runtime chooses at random (a select with two ready
	// cases): the run is exempt from the determinism recheck and its replay
	// file is marked so that the driver replays it several times.
	Nondet bool
}

// Fail records the first violation of the run.
func (rc *RunCtx) Fail(class, site, msg string) {
	if rc.Violation == nil {
		rc.Violation = &Violation{Class: class, Site: site, Msg: msg}
	}
}

// Adopt copies the kernel's outcome into the run context.
func (rc *RunCtx) Adopt(k *Kernel) {
	if rc.Violation == nil && k.Violation != nil {
		rc.Violation = k.Violation
	}
	if k.Inconclusive != "" {
		rc.Inconclusive = k.Inconclusive
	}
	if k.HarnessErr != "" {
		rc.HarnessErr = k.HarnessErr
	}
	rc.Log = k.Log
	rc.LogHash = k.LogHash
	rc.Sig = k.SchedSig
	rc.NonTrivial = k.Branching > 0
	rc.Steps += int64(k.Steps)
}

// replayFile is the on-disk form of a failing run.
type replayFile struct {
	Property  string   `json:"property"`
	Class     string   `json:"class"`
	Site      string   `json:"site"`
	Message   string   `json:"message"`
	LogHash   string   `json:"log_hash"`
	Events    []string `json:"events"`
	Tape      []uint32 `json:"tape"`
	Seed      uint64   `json:"seed"`
	Run       uint64   `json:"run"`
	OrigTape  int      `json:"original_tape_len"`
	Unshrunk  []uint32 `json:"unshrunk_tape,omitempty"`
	Nondet    bool     `json:"nondeterministic,omitempty"`
	ShrinkRun int      `json:"shrink_executions"`
}

// workerResult is what a worker process writes for the driver.
type workerResult struct {
	Property     string           `json:"property"`
	Violation    *Violation       `json:"violation"`
	Replay       string           `json:"replay"`
	HarnessErr   string           `json:"harness_error"`
	KnownHits    map[string]int64 `json:"known_hits"`
	Stats        *Stats           `json:"stats"`
	Samples      []any            `json:"samples"`
	SigFile      string           `json:"sig_file"`
	Runs         int64            `json:"runs"`
	Steps        int64            `json:"steps"`
	Inconclusive int64            `json:"inconclusive"`
	Stalls       int64            `json:"stalled_runs"`
	StallLimit   bool             `json:"stall_limit_reached"`
	NonTrivial   int64            `json:"nontrivial_runs"`
	Distinct     int64            `json:"distinct_nontrivial_local"`
	Rechecked    int64            `json:"determinism_rechecks"`
	RaceReports  int64            `json:"race_reports"`
	SimTimeNs    int64            `json:"sim_time_ns"`
	WallS        float64          `json:"wall_s"`
	Replayed     *replayOutcome   `json:"replayed,omitempty"`
	SigCapped    bool             `json:"sig_capped"`
	TimedOut     bool             `json:"timed_out"`
	GoVersion    string           `json:"go_version"`
	Goroutines   int              `json:"goroutines_at_end"`
	HeapMB       uint64           `json:"heap_mb_at_end"`
	RaceEnabled  bool             `json:"race_enabled"`
}

type replayOutcome struct {
	Violation *Violation `json:"violation"`
	LogHash   string     `json:"log_hash"`
	Expected  string     `json:"expected_log_hash"`
	Same      bool       `json:"same"`
}

type worker struct {
	dumpBuf  []byte
	stalls   int64
	t        *testing.T
	c        *Check
	stats    *Stats
	raceLog  string
	raceOff  int64
	raceErrs int
	tier     string
	progress *os.File
	wdReset  chan string
}

// outcome is the result of one executed run.
type outcome struct {
	rc *RunCtx
}

func envInt(name string, def int64) int64 {
	s := os.Getenv(name)
	if s == "" {
		return def
	}
	v, err := strconv.ParseInt(s, 10, 64)
	if err != nil {
		panic(fmt.Sprintf("bad %s=%q", name, s))
	}

	return v
}

// runBubble executes f inside a synctest bubble on a helper goroutine and
// recovers the end-of-bubble deadlock panic (goroutines still blocked inside
// the code under test).
func runBubble(t *testing.T, f func()) (leftover bool, pv any, stack string) {
	type res struct {
		pv    any
		stack string
	}
	done := make(chan res, 1)
	go func() {
		var r res
		defer func() {
			if v := recover(); v != nil {
				r.pv = v
				r.stack = string(debug.Stack())
			}
			done <- r
		}()
		synctest.Test(t, func(_ *testing.T) { f() })
	}()
	r := <-done
	if r.pv != nil {
		if s, ok := r.pv.(string); ok && strings.HasPrefix(s, "deadlock:") {
			return true, nil, ""
		}
		if e, ok := r.pv.(error); ok && strings.HasPrefix(e.Error(), "deadlock:") {
			return true, nil, ""
		}
	}

	return false, r.pv, r.stack
}

// execBubble runs the check inside a bubble and watches it from outside.  If
// the scheduler makes no progress for a while and the goroutine dump shows
// that nothing in the bubble can run while some goroutine waits for a mutex
// (a wait the bubble does not count as durable, so synctest.Wait never
// returns), the run has stalled: the bubble is abandoned with its goroutines
// left blocked, and the run is reported as inconclusive - unless the
// workload's OnStall turns the situation into a verdict.  Such a stall is an
// artefact of cooperative scheduling (the holder of the mutex is parked at a
// yield and would release it if it could be scheduled), not evidence against
// the code under test.
func (w *worker) execBubble(rc *RunCtx) (stalled *RunCtx) {
	type res struct {
		pv    any
		stack string
	}
	done := make(chan res, 1)
	go func() {
		_, pv, stack := runBubble(w.t, func() { w.c.Run(rc) })
		done <- res{pv: pv, stack: stack}
	}()
	tick := time.NewTicker(20 * time.Millisecond)
	defer tick.Stop()
	var last uint64
	idle := 0
	for {
		select {
		case r := <-done:
			if r.pv != nil && rc.HarnessErr == "" {
				rc.HarnessErr = fmt.Sprintf("panic in bubble root: %v\n%s", r.pv, r.stack)
			}

			return nil
		case <-tick.C:
		}
		k := loadCurrent()
		if k == nil {
			idle = 0

			continue
		}
		if p := k.Progress(); p != last {
			last, idle = p, 0

			continue
		}
		idle++
		if idle < 5 {
			continue
		}
		if w.dumpBuf == nil {
			w.dumpBuf = make([]byte, 16<<20)
		}
		dump := string(w.dumpBuf[:runtime.Stack(w.dumpBuf, true)])
		info := analyseStall(dump)
		if info == nil {
			continue // something is still running: slow, not stalled
		}
		raceAcquire(unsafe.Pointer(&k.stallToken))
		out := &RunCtx{T: w.t, Tape: rc.Tape, Stats: w.stats, Tier: w.tier, Inconclusive: "stalled: a goroutine waits for a mutex whose holder is parked at a yield"}
		if k.OnStall != nil {
			out.Violation = k.OnStall(info)
		}
		w.stalls++
		storeCurrent(nil)

		return out
	}
}

// analyseStall inspects a dump of all goroutines.  It returns nil unless the
// bubble whose root is waiting in Kernel.Run is completely blocked with at
// least one goroutine in a wait that the bubble does not treat as durable.
func analyseStall(dump string) *StallInfo {
	blocks := strings.Split(dump, "\n\n")
	// The current bubble is the one with the highest number (abandoned ones
	// stay in the dump).
	bubble, bubbleNo := "", -1
	for _, b := range blocks {
		if strings.Contains(b, "kernel.(*Kernel).Run(") || strings.Contains(b, "kernel.(*Kernel).Finish(") {
			if i := strings.Index(b, "synctest bubble "); i >= 0 && strings.Contains(b[:strings.IndexByte(b, '\n')+1], "synctest.Wait") {
				name := b[i : i+strings.IndexAny(b[i:], "]\n")]
				if n, err := strconv.Atoi(strings.TrimPrefix(name, "synctest bubble ")); err == nil && n > bubbleNo {
					bubble, bubbleNo = name, n
				}
			}
		}
	}
	if bubble == "" {
		return nil
	}
	info := &StallInfo{Dump: dump}
	for _, b := range blocks {
		nl := strings.IndexByte(b, '\n')
		if nl < 0 || !strings.HasPrefix(b, "goroutine ") {
			continue
		}
		head := b[:nl]
		if !strings.Contains(head, bubble+"]") {
			continue
		}
		var id uint64
		for _, c := range head[len("goroutine "):] {
			if c < '0' || c > '9' {
				break
			}
			id = id*10 + uint64(c-'0')
		}
		lb := strings.IndexByte(head, '[')
		state := head[lb+1:]
		switch {
		case strings.HasPrefix(state, "running"), strings.HasPrefix(state, "runnable"), strings.HasPrefix(state, "syscall"):
			return nil
		case strings.Contains(state, "(durable)"):
			if strings.Contains(b, "kernel.(*Kernel).park(") {
				info.Parked = append(info.Parked, id)
			}
		default:
			info.MutexBlocked = append(info.MutexBlocked, id)
		}
	}
	if len(info.MutexBlocked) == 0 {
		return nil
	}

	return info
}

// exec executes one run on the given tape and attributes race reports to it.
func (w *worker) exec(tape *Tape, keepLog bool) *RunCtx {
	select {
	case w.wdReset <- "":
	default:
	}
	rc := &RunCtx{T: w.t, Tape: tape, Stats: w.stats, Tier: w.tier, KeepLog: keepLog}
	if w.c.Bubble {
		if stalled := w.execBubble(rc); stalled != nil {
			// The bubble was abandoned; rc belongs to its frozen goroutines.
			return stalled
		}
	} else {
		func() {
			defer func() {
				if v := recover(); v != nil && rc.HarnessErr == "" {
					rc.HarnessErr = fmt.Sprintf("panic in run: %v\n%s", v, debug.Stack())
				}
			}()
			w.c.Run(rc)
		}()
	}
	if w.c.After != nil && rc.Violation == nil && rc.HarnessErr == "" {
		func() {
			defer func() {
				if v := recover(); v != nil && rc.HarnessErr == "" {
					rc.HarnessErr = fmt.Sprintf("panic in After: %v\n%s", v, debug.Stack())
				}
			}()
			w.c.After(rc)
		}()
	}

	if RaceEnabled {
		if ne := raceErrors(); ne > w.raceErrs {
			w.raceErrs = ne
			site, text := w.readRaceReports()
			if site == "" && w.c.RaceAnywhere {
				site = "no-golibs-frame"
			}
			switch {
			case site == "":
				if rc.HarnessErr == "" {
					rc.HarnessErr = "race report without golibs frames (harness race):\n" + text
				}
			case rc.Violation == nil:
				rc.Violation = &Violation{Class: "race", Site: site, Msg: firstLines(text, 40)}
			}
		}
	}

	return rc
}

func firstLines(s string, n int) string {
	lines := strings.Split(s, "\n")
	if len(lines) > n {
		lines = lines[:n]
	}

	return strings.Join(lines, "\n")
}

// readRaceReports reads what the race detector has appended to its log since
// the last call and returns the signature site of the first report that has
// frames of the code under test in both or either access stacks.
func (w *worker) readRaceReports() (site, text string) {
	if w.raceLog == "" {
		return "", "(no race log configured)"
	}
	path := w.raceLog + "." + strconv.Itoa(os.Getpid())
	// The report is written before the error counter is bumped, but be
	// tolerant of buffering.
	var data []byte
	for i := 0; i < 50; i++ {
		b, err := os.ReadFile(path)
		if err == nil && int64(len(b)) > w.raceOff {
			data = b[w.raceOff:]
			w.raceOff = int64(len(b))

			break
		}
		time.Sleep(2 * time.Millisecond)
	}
	text = string(data)

	return RaceSite(text), text
}

const golibsPrefix = "github.com/AdguardTeam/golibs/"

// RaceSite attributes the first attributable race report in text to the code
// under test and returns the sorted pair (or single) of responsible golibs
// functions, or "" if no report is attributable.
//
// An access stack is attributable if its innermost frame outside the Go
// standard library belongs to the code under test: the access was made by
// golibs itself or by library code that golibs called (encoding/json, slog,
// bufio ...).  A stack whose innermost non-library frame is harness code is not
// attributable even if golibs frames lie below it (a harness callback running
// under a golibs caller): if neither access of a report is attributable the
// report is a harness race, which the worker turns into a harness error.
func RaceSite(text string) string {
	reports := strings.Split(text, "WARNING: DATA RACE")
	for _, rep := range reports[1:] {
		var sites []string
		inAccess := false
		decided := false
		for _, line := range strings.Split(rep, "\n") {
			trim := strings.TrimSpace(line)
			switch {
			case strings.HasPrefix(trim, "Read at "), strings.HasPrefix(trim, "Write at "),
				strings.HasPrefix(trim, "Previous read at "), strings.HasPrefix(trim, "Previous write at "),
				strings.HasPrefix(trim, "Atomic "), strings.HasPrefix(trim, "Previous atomic "):
				inAccess = true
				decided = false
			case strings.HasPrefix(trim, "Goroutine "), strings.HasPrefix(trim, "======"):
				inAccess = false
			case !inAccess || decided || trim == "" || strings.HasPrefix(trim, "/"):
				// not a function line of an access stack
			case strings.HasPrefix(trim, golibsPrefix):
				fn := strings.TrimPrefix(trim, golibsPrefix)
				if i := strings.LastIndex(fn, "("); i > 0 {
					fn = fn[:i]
				}
				sites = append(sites, fn)
				decided = true
			case isStdFrame(trim):
				// keep walking outwards
			default:
				// harness (or third-party) code made this access
				decided = true
			}
		}
		if len(sites) > 0 {
			sort.Strings(sites)

			return strings.Join(sites, "|")
		}
	}

	return ""
}

// isStdFrame reports whether a function line of a stack belongs to the Go
// standard library or runtime: its import path has no dot in the first
// element ("encoding/json.(*Encoder).Encode()", "runtime.deferreturn()").
func isStdFrame(fn string) bool {
	first := fn
	if i := strings.IndexByte(first, '/'); i >= 0 {
		first = first[:i]
	} else if i := strings.IndexByte(first, '.'); i >= 0 {
		first = first[:i]
	}
	if first == "verif" || first == "main" {
		return false
	}

	return !strings.Contains(first, ".")
}

// shrink minimises a failing tape with delta debugging: the same violation
// signature must persist.
func (w *worker) shrink(tape []uint32, sig string, budget int, deadline time.Time) (best []uint32, execs int) {
	best = append([]uint32(nil), tape...)
	stallsAtStart := w.stalls
	test := func(cand []uint32) bool {
		if execs >= budget || time.Now().After(deadline) || w.stalls-stallsAtStart > 40 {
			return false
		}
		execs++
		rc := w.exec(ReplayTape(cand), false)
		if rc.Violation != nil && rc.Violation.Signature() == sig && rc.HarnessErr == "" {
			// Adopt the canonical (consumed) form, which may be shorter.
			out := rc.Tape.Out
			if len(out) <= len(cand) {
				best = append([]uint32(nil), out...)
			} else {
				best = append([]uint32(nil), cand...)
			}

			return true
		}

		return false
	}

	// Canonicalise first.
	test(best)

	for pass := 0; pass < 6; pass++ {
		before := fmt.Sprint(best)
		// 1. Chunk deletion.
		for size := len(best) / 2; size >= 1; size /= 2 {
			for i := 0; i+size <= len(best); {
				cand := append(append([]uint32(nil), best[:i]...), best[i+size:]...)
				if !test(cand) {
					i += size
				}
			}
		}
		// 2. Zeroing and lowering.
		for i := 0; i < len(best); i++ {
			if best[i] == 0 {
				continue
			}
			cand := append([]uint32(nil), best...)
			cand[i] = 0
			if test(cand) {
				continue
			}
			for v := best[i] / 2; i < len(best) && v > 0 && v < best[i]; v = best[i] / 2 {
				cand = append([]uint32(nil), best...)
				cand[i] = v
				if !test(cand) {
					break
				}
			}
			if i < len(best) && best[i] > 1 {
				cand = append([]uint32(nil), best...)
				cand[i] = best[i] - 1
				test(cand)
			}
		}
		// 3. Drop trailing zeros (an exhausted tape yields zeros anyway).
		for len(best) > 0 && best[len(best)-1] == 0 {
			best = best[:len(best)-1]
		}
		if fmt.Sprint(best) == before {
			break
		}
	}

	return best, execs
}

// WorkerMain is the body of every property's TestWorker.  Its behaviour is
// controlled by environment variables set by the driver (run.py).
func WorkerMain(t *testing.T, c *Check) {
	mode := os.Getenv("VERIF_MODE")
	if mode == "" {
		t.Skip("VERIF_MODE not set; this test is driven by /verif/run.py")
	}
	out := os.Getenv("VERIF_OUT")
	if out == "" {
		t.Fatal("VERIF_OUT not set")
	}
	debug.SetPanicOnFault(true)

	if !CheckMutexLayout() {
		writeResult(out, &workerResult{Property: c.ID, HarnessErr: "sync.Mutex layout assumption does not hold"})

		return
	}

	w := &worker{
		t:       t,
		c:       c,
		stats:   &Stats{Faults: map[string]int64{}, Probes: map[string]int64{}},
		raceLog: os.Getenv("VERIF_RACELOG"),
		tier:    os.Getenv("VERIF_TIER"),
		wdReset: make(chan string, 16),
	}
	w.raceErrs = raceErrors()
	if c.Setup != nil {
		c.Setup()
	}
	if p := os.Getenv("VERIF_PROGRESS"); p != "" {
		f, err := os.OpenFile(p, os.O_CREATE|os.O_WRONLY|os.O_TRUNC, 0o644)
		if err != nil {
			t.Fatal(err)
		}
		w.progress = f
		defer f.Close()
	}
	go w.watchdog(time.Duration(envInt("VERIF_WATCHDOG_S", 30)) * time.Second)

	res := &workerResult{
		Property:    c.ID,
		KnownHits:   map[string]int64{},
		Stats:       w.stats,
		GoVersion:   runtime.Version(),
		RaceEnabled: RaceEnabled,
	}
	start := time.Now()

	switch mode {
	case "explore":
		w.explore(res)
	case "replay":
		w.replay(res)
	default:
		t.Fatalf("bad VERIF_MODE %q", mode)
	}

	res.WallS = time.Since(start).Seconds()
	res.Goroutines = runtime.NumGoroutine()
	var ms runtime.MemStats
	runtime.ReadMemStats(&ms)
	res.HeapMB = ms.HeapAlloc >> 20
	writeResult(out, res)
}

func writeResult(path string, res *workerResult) {
	b, err := json.Marshal(res)
	if err != nil {
		panic(err)
	}
	tmp := path + ".tmp"
	if err = os.WriteFile(tmp, b, 0o644); err != nil {
		panic(err)
	}
	if err = os.Rename(tmp, path); err != nil {
		panic(err)
	}
}

func (w *worker) mark(s string) {
	if w.progress != nil {
		b := []byte(fmt.Sprintf("%-60s\n", s))
		_, _ = w.progress.WriteAt(b, 0)
	}
	select {
	case w.wdReset <- s:
	default:
	}
}

// watchdog kills the process (exit 3, all stacks dumped) if a single run takes
// longer than limit of real time, e.g. because a task blocked on a mutex,
// which the bubble cannot see as durably blocked.
func (w *worker) watchdog(limit time.Duration) {
	// The budget of a run is counted in ticks of this goroutine that arrive on
	// time: while the whole process is starved or frozen (an overloaded
	// machine, a stopped VM) its own ticks are late too and count nothing, so
	// only a run that hangs while the process is being scheduled trips it.
	const tick = 500 * time.Millisecond
	last := "start"
	healthy := time.Duration(0)
	prev := time.Now()
	ticker := time.NewTicker(tick)
	for {
		select {
		case s := <-w.wdReset:
			if s != "" {
				last = s
			}
			healthy = 0
			prev = time.Now()
		case <-ticker.C:
			now := time.Now()
			if d := now.Sub(prev); d < 3*tick {
				healthy += d
			}
			prev = now
			if healthy < limit {
				continue
			}
			buf := make([]byte, 1<<20)
			n := runtime.Stack(buf, true)
			fmt.Fprintf(os.Stderr, "VERIF-WATCHDOG: run %q exceeded %v\n%s\n", last, limit, buf[:n])
			if p := os.Getenv("VERIF_OUT"); p != "" {
				_ = os.WriteFile(p+".hang", buf[:n], 0o644)
			}
			os.Exit(3)
		}
	}
}

func (w *worker) explore(res *workerResult) {
	seed := uint64(envInt("VERIF_SEED", 1))
	from := envInt("VERIF_FROM", 0)
	to := envInt("VERIF_TO", 1)
	stride := envInt("VERIF_STRIDE", 1)
	recheck := envInt("VERIF_RECHECK", 50)
	maxWall := time.Duration(envInt("VERIF_MAX_WALL_S", 3600)) * time.Second
	known := map[string]bool{}
	for _, s := range strings.Split(os.Getenv("VERIF_KNOWN"), "\n") {
		if s = strings.TrimSpace(s); s != "" {
			known[s] = true
		}
	}
	const sigCap = 400000
	sigs := map[uint64]struct{}{}
	start := time.Now()
	nSamples := 0

	var hashOut *os.File
	if p := os.Getenv("VERIF_HASHFILE"); p != "" {
		if f, err := os.Create(p); err == nil {
			hashOut = f
			defer f.Close()
		}
	}

	for i := from; i < to; i += stride {
		if i&63 == 0 && time.Since(start) > maxWall {
			res.TimedOut = true

			break
		}
		w.mark(fmt.Sprintf("seed=%d run=%d", seed, i))
		keep := nSamples < 2 && from == 0
		tape := NewTape(Mix(seed, uint64(i)))
		if p := os.Getenv("VERIF_TAPEFILE"); p != "" {
			// Used by the driver when it re-runs a run that killed its worker.
			if f, err := os.Create(p); err == nil {
				tape.Sink = f
				defer f.Close()
			}
		}
		rc := w.exec(tape, keep)
		res.Runs++
		res.Steps += rc.Steps
		res.SimTimeNs += int64(rc.SimTime)
		if hashOut != nil {
			v := "-"
			if rc.Violation != nil {
				v = rc.Violation.Signature()
			}
			fmt.Fprintf(hashOut, "%d %016x %016x %d %s\n", i, rc.LogHash, rc.Sig, len(rc.Tape.Out), v)
		}
		if rc.HarnessErr != "" {
			res.HarnessErr = fmt.Sprintf("seed=%d run=%d: %s", seed, i, rc.HarnessErr)

			return
		}
		if rc.Inconclusive != "" {
			res.Inconclusive++
		}
		res.Stalls = w.stalls
		if rc.Violation != nil {
			if rc.Violation.Class == "race" {
				res.RaceReports++
			}
			sig := rc.Violation.Signature()
			if known[sig] {
				res.KnownHits[sig]++

				continue
			}
			w.reportViolation(res, rc, seed, uint64(i))
			w.writeSigs(res, sigs)

			return
		}
		if rc.NonTrivial {
			res.NonTrivial++
			if len(sigs) < sigCap {
				sigs[rc.Sig] = struct{}{}
			} else {
				res.SigCapped = true
			}
		}
		if keep && rc.NonTrivial && len(rc.Log) > 0 {
			nSamples++
			res.Samples = append(res.Samples, map[string]any{
				"seed": seed, "run": i, "tape_len": len(rc.Tape.Out), "events": capLines(rc.Log, 120),
			})
		}
		if w.stalls > 300 {
			// Every stalled run leaves a blocked bubble behind; enough.
			res.StallLimit = true

			break
		}
		if recheck > 0 && (i/stride)%recheck == 0 && !rc.Nondet && rc.Inconclusive == "" {
			// Determinism spot check: replaying the recorded tape must give
			// the same event log and verdict.
			rc2 := w.exec(ReplayTape(rc.Tape.Out), false)
			res.Rechecked++
			if rc2.HarnessErr != "" || rc2.Violation != nil || rc2.LogHash != rc.LogHash {
				// Run both again with logs for the report.
				a := w.exec(ReplayTape(rc.Tape.Out), true)
				b := w.exec(ReplayTape(rc.Tape.Out), true)
				c := w.exec(NewTape(Mix(seed, uint64(i))), true)
				res.HarnessErr = fmt.Sprintf(
					"determinism recheck failed at seed=%d run=%d: hash %x vs %x, violation %v, err %q\n%s\n%s",
					seed, i, rc.LogHash, rc2.LogHash, rc2.Violation, rc2.HarnessErr,
					firstDivergence("explore", c.Log, "replay", a.Log), firstDivergence("replay1", a.Log, "replay2", b.Log),
				)

				return
			}
		}
	}

	w.writeSigs(res, sigs)
}

func (w *worker) writeSigs(res *workerResult, sigs map[uint64]struct{}) {
	res.Distinct = int64(len(sigs))
	if p := os.Getenv("VERIF_SIGFILE"); p != "" {
		b := make([]byte, 0, 8*len(sigs))
		for s := range sigs {
			b = binary.LittleEndian.AppendUint64(b, s)
		}
		if err := os.WriteFile(p, b, 0o644); err == nil {
			res.SigFile = p
		}
	}
}

func capLines(l []string, n int) []string {
	if len(l) > n {
		return append(append([]string(nil), l[:n]...), fmt.Sprintf("... (%d more)", len(l)-n))
	}

	return l
}

// reportViolation shrinks the failing tape, re-executes the result for its
// event log, and writes the replay file.
func (w *worker) reportViolation(res *workerResult, rc *RunCtx, seed, run uint64) {
	sig := rc.Violation.Signature()
	orig := append([]uint32(nil), rc.Tape.Out...)
	best, execs := orig, 0
	if os.Getenv("VERIF_NOSHRINK") == "" {
		budget := int(envInt("VERIF_SHRINK_BUDGET", 3000))
		w.mark(fmt.Sprintf("shrinking seed=%d run=%d", seed, run))
		best, execs = w.shrink(orig, sig, budget, time.Now().Add(45*time.Second))
	}
	w.mark(fmt.Sprintf("final seed=%d run=%d", seed, run))
	final := w.exec(ReplayTape(best), true)
	if final.Violation == nil || final.Violation.Signature() != sig {
		// Shrinking result did not reproduce (flaky verdict, e.g. a race
		// report hidden by a std-library pool edge): fall back to the
		// original tape.
		best = orig
		final = w.exec(ReplayTape(best), true)
	}
	v := rc.Violation
	logHash := rc.LogHash
	events := rc.Log
	if final.Violation != nil && final.Violation.Signature() == sig {
		v = final.Violation
		logHash = final.LogHash
		events = final.Log
	}
	rf := &replayFile{
		Property:  w.c.ID,
		Class:     v.Class,
		Site:      v.Site,
		Message:   v.Msg,
		LogHash:   fmt.Sprintf("%016x", logHash),
		Events:    capLines(events, 400),
		Tape:      best,
		Seed:      seed,
		Run:       run,
		OrigTape:  len(orig),
		Nondet:    rc.Nondet,
		ShrinkRun: execs,
	}
	if v.Class == "race" || rc.Nondet {
		// The verdict of the race detector can depend on what its bounded
		// shadow memory still remembers; the driver falls back to the tape as
		// found if the minimised one does not reproduce in a fresh process.
		rf.Unshrunk = orig
	}
	dir := os.Getenv("VERIF_REPLAY_DIR")
	if dir == "" {
		dir = "."
	}
	_ = os.MkdirAll(dir, 0o755)
	path := fmt.Sprintf("%s/%s-seed%d-run%d.json", dir, w.c.ID, seed, run)
	b, _ := json.MarshalIndent(rf, "", " ")
	if err := os.WriteFile(path, b, 0o644); err != nil {
		res.HarnessErr = "cannot write replay file: " + err.Error()

		return
	}
	res.Violation = v
	res.Replay = path
}

func (w *worker) replay(res *workerResult) {
	path := os.Getenv("VERIF_REPLAY")
	b, err := os.ReadFile(path)
	if err != nil {
		res.HarnessErr = "cannot read replay file: " + err.Error()

		return
	}
	var rf replayFile
	if err = json.Unmarshal(b, &rf); err != nil {
		res.HarnessErr = "cannot parse replay file: " + err.Error()

		return
	}
	w.mark("replay " + path)
	rc := w.exec(ReplayTape(rf.Tape), true)
	res.Runs = 1
	if rc.HarnessErr != "" {
		res.HarnessErr = rc.HarnessErr

		return
	}
	h := fmt.Sprintf("%016x", rc.LogHash)
	res.Replayed = &replayOutcome{
		Violation: rc.Violation,
		LogHash:   h,
		Expected:  rf.LogHash,
		Same: rc.Violation != nil && rc.Violation.Class == rf.Class && rc.Violation.Site == rf.Site &&
			h == rf.LogHash,
	}
	res.Violation = rc.Violation
	res.Samples = []any{map[string]any{"events": capLines(rc.Log, 400)}}
}

func firstDivergence(an string, a []string, bn string, b []string) string {
	n := min(len(a), len(b))
	for i := 0; i < n; i++ {
		if a[i] != b[i] {
			lo := max(0, i-12)

			return fmt.Sprintf("%s vs %s diverge at event %d:\n  common: %s\n  %s: %s\n  %s: %s", an, bn, i,
				strings.Join(a[lo:i], " | "), an, strings.Join(a[i:min(len(a), i+4)], " | "), bn, strings.Join(b[i:min(len(b), i+4)], " | "))
		}
	}
	if len(a) != len(b) {
		return fmt.Sprintf("%s has %d events, %s has %d; common prefix identical; tails: %v / %v", an, len(a), bn, len(b), a[n:], b[n:])
	}

	return an + " and " + bn + " logs identical"
}
