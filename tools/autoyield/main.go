// Command autoyield writes instrumented copies of Go source files in which a
// call to the package's guarded simulator hook is inserted before every
// statement of every function body, and prints a `go build -overlay` JSON
// file that maps the originals to the copies.  The repository itself is never
// modified: the copies live in the check's temporary build directory.
//
// Yields only add interleavings that preemption could produce in a real
// execution, so they cannot cause a false alarm; they make check-then-act
// windows that contain no hand-written hook visible to the scheduler.
package main

import (
	"encoding/json"
	"flag"
	"fmt"
	"go/ast"
	"go/format"
	"go/parser"
	"go/token"
	"os"
	"path/filepath"
	"regexp"
	"strings"
)

func main() {
	call := flag.String("call", `simPoint(%q)`, "call template; %q receives the site name")
	out := flag.String("out", "", "output directory")
	simfile := flag.String("simfile", "", "DIR:PKG: also add a file to package PKG in DIR that defines SimHook and simPoint (for packages without guarded hooks)")
	simsync := flag.String("simsync", "", "DIR:PKG: replace sync.Mutex and sync.RWMutex in the given files by simulated mutexes (defined in a file added to package PKG in DIR); yields are then also inserted inside the critical sections of those mutexes")
	flag.Parse()
	if *out == "" || flag.NArg() == 0 {
		fmt.Fprintln(os.Stderr, "usage: autoyield -out DIR [-call TEMPLATE] FILE...")
		os.Exit(2)
	}
	overlay := map[string]string{}
	for i, path := range flag.Args() {
		abs, err := filepath.Abs(path)
		check(err)
		src, err := os.ReadFile(abs)
		check(err)
		fset := token.NewFileSet()
		f, err := parser.ParseFile(fset, abs, src, parser.ParseComments)
		check(err)
		base := filepath.Base(abs)
		ins := &inserter{fset: fset, base: base, call: *call}
		if *simsync != "" {
			ins.simNames = simulatedNames(f)
			dropHookMutexes(f)
		}
		for _, d := range f.Decls {
			if fd, ok := d.(*ast.FuncDecl); ok && fd.Body != nil {
				ins.held = 0
				ins.block(fd.Body)
			}
		}
		// Comments carry positions that no longer match: drop free-floating
		// comments except build constraints (the printer would misplace them).
		f.Comments = nil
		var sb strings.Builder
		check(format.Node(&sb, fset, f))
		text := sb.String()
		if *simsync != "" {
			text = useSimulatedMutexes(text)
		}
		for _, line := range strings.Split(string(src), "\n") {
			if strings.HasPrefix(line, "//go:build") {
				text = line + "\n\n" + text
			}
		}
		dst := filepath.Join(*out, fmt.Sprintf("ay%d_%s", i, base))
		check(os.WriteFile(dst, []byte(text), 0o644))
		overlay[abs] = dst
		fmt.Fprintf(os.Stderr, "autoyield: %s: %d yields inserted, %d hand-placed yields inside critical sections dropped\n", base, ins.n, ins.dropped)
	}
	if *simfile != "" {
		dir, pkg, ok := strings.Cut(*simfile, ":")
		if !ok {
			check(fmt.Errorf("bad -simfile %q", *simfile))
		}
		abs, err := filepath.Abs(dir)
		check(err)
		dst := filepath.Join(*out, "ay_sim_"+pkg+".go")
		check(os.WriteFile(dst, []byte(fmt.Sprintf(simFileTemplate, pkg)), 0o644))
		overlay[filepath.Join(abs, "zz_sim_overlay.go")] = dst
	}
	if *simsync != "" {
		dir, pkg, ok := strings.Cut(*simsync, ":")
		if !ok {
			check(fmt.Errorf("bad -simsync %q", *simsync))
		}
		abs, err := filepath.Abs(dir)
		check(err)
		dst := filepath.Join(*out, "ay_simsync_"+pkg+".go")
		check(os.WriteFile(dst, []byte(fmt.Sprintf(simSyncTemplate, pkg)), 0o644))
		overlay[filepath.Join(abs, "zz_simsync_overlay.go")] = dst
	}
	b, err := json.MarshalIndent(map[string]any{"Replace": overlay}, "", " ")
	check(err)
	fmt.Println(string(b))
}

const simFileTemplate = `// Code added through a build overlay by the verification harness; not part of
// the repository.

package %s

// SimHook, when set, is called at every yield inserted by tools/autoyield.
var SimHook func(site string)

func simPoint(site string) {
	if h := SimHook; h != nil {
		h(site)
	}
}
`

const simSyncTemplate = `// Code added through a build overlay by the verification harness; not part of
// the repository.

package %s

import (
	"sync"
	"sync/atomic"
	"unsafe"
)

// SimSync, when set, is asked first by every operation of a simulated mutex;
// if it declines (outside a simulated run) the real mutex inside is used.
var SimSync func(op int, m unsafe.Pointer) (handled, ok bool)

// simState is the simulator's state of a simulated primitive.  It lives in
// the object itself (a table keyed by address would hand the state of a
// collected object to a new one allocated at the same address); during a run
// only the scheduler goroutine reads and writes it.  The layout is known to
// sim/kernel/simsync.go.
type simState struct {
	w, running, done, _ bool
	r                   int32
}

type simMutex struct {
	st   simState
	real sync.Mutex
}

func (m *simMutex) Lock() {
	if h := SimSync; h != nil {
		if handled, _ := h(0, unsafe.Pointer(m)); handled {
			return
		}
	}
	m.real.Lock()
}

func (m *simMutex) Unlock() {
	if h := SimSync; h != nil {
		if handled, _ := h(1, unsafe.Pointer(m)); handled {
			return
		}
	}
	m.real.Unlock()
}

func (m *simMutex) TryLock() bool {
	if h := SimSync; h != nil {
		if handled, ok := h(2, unsafe.Pointer(m)); handled {
			return ok
		}
	}

	return m.real.TryLock()
}

type simRWMutex struct {
	st   simState
	real sync.RWMutex
}

func (m *simRWMutex) Lock() {
	if h := SimSync; h != nil {
		if handled, _ := h(0, unsafe.Pointer(m)); handled {
			return
		}
	}
	m.real.Lock()
}

func (m *simRWMutex) Unlock() {
	if h := SimSync; h != nil {
		if handled, _ := h(1, unsafe.Pointer(m)); handled {
			return
		}
	}
	m.real.Unlock()
}

func (m *simRWMutex) TryLock() bool {
	if h := SimSync; h != nil {
		if handled, ok := h(2, unsafe.Pointer(m)); handled {
			return ok
		}
	}

	return m.real.TryLock()
}

func (m *simRWMutex) RLock() {
	if h := SimSync; h != nil {
		if handled, _ := h(3, unsafe.Pointer(m)); handled {
			return
		}
	}
	m.real.RLock()
}

func (m *simRWMutex) RUnlock() {
	if h := SimSync; h != nil {
		if handled, _ := h(4, unsafe.Pointer(m)); handled {
			return
		}
	}
	m.real.RUnlock()
}

func (m *simRWMutex) TryRLock() bool {
	if h := SimSync; h != nil {
		if handled, ok := h(5, unsafe.Pointer(m)); handled {
			return ok
		}
	}

	return m.real.TryRLock()
}

// simOnce replaces sync.Once.  A Once that was completed outside a run (through
// the real one inside) counts as done.
type simOnce struct {
	st   simState
	real sync.Once
}

func (o *simOnce) Do(f func()) {
	if atomic.LoadUint32((*uint32)(unsafe.Pointer(&o.real))) == 1 {
		return
	}
	if h := SimSync; h != nil {
		if handled, run := h(6, unsafe.Pointer(o)); handled {
			if run {
				defer h(7, unsafe.Pointer(o))
				f()
			}

			return
		}
	}
	o.real.Do(f)
}

// simOnceFunc, simOnceValue and simOnceValues replace sync.OnceFunc,
// sync.OnceValue and sync.OnceValues (same behaviour, panics included: a
// panic of f is repeated for every caller), built on simOnce.
func simOnceFunc(f func()) func() {
	var (
		once  simOnce
		valid bool
		p     any
	)
	g := func() {
		defer func() {
			p = recover()
			if !valid && p != nil {
				// (p == nil: f did not panic - since Go 1.21 recover never
				// returns nil for a panic - but ended with runtime.Goexit,
				// which is how the simulator ends a task; the original would
				// turn that into panic(nil).)
				panic(p)
			}
		}()
		f()
		f = nil
		valid = true
	}

	return func() {
		once.Do(g)
		if !valid {
			panic(p)
		}
	}
}

func simOnceValue[T any](f func() T) func() T {
	var result T
	do := simOnceFunc(func() { result = f() })

	return func() T {
		do()

		return result
	}
}

func simOnceValues[T1, T2 any](f func() (T1, T2)) func() (T1, T2) {
	var (
		r1 T1
		r2 T2
	)
	do := simOnceFunc(func() { r1, r2 = f() })

	return func() (T1, T2) {
		do()

		return r1, r2
	}
}

// RLocker returns a Locker for the read side, as sync.RWMutex does.
func (m *simRWMutex) RLocker() sync.Locker { return (*simRLocker)(m) }

type simRLocker simRWMutex

func (r *simRLocker) Lock()   { (*simRWMutex)(r).RLock() }
func (r *simRLocker) Unlock() { (*simRWMutex)(r).RUnlock() }
`

var (
	reMutex   = regexp.MustCompile(`\bsync\.Mutex\b`)
	reRWMutex = regexp.MustCompile(`\bsync\.RWMutex\b`)
	reOnce    = regexp.MustCompile(`\bsync\.Once\b`)
	reOnceFn  = regexp.MustCompile(`\bsync\.Once(Func|Value|Values)\b`)
	reSyncUse = regexp.MustCompile(`\bsync\.[A-Za-z]`)
	reComment = regexp.MustCompile(`(?m)//.*$`)
	reSyncImp = regexp.MustCompile(`(?m)^\s*"sync"\n`)
)

// useSimulatedMutexes replaces the mutex types in printed source text and
// removes the import of sync if nothing else uses it.
func useSimulatedMutexes(text string) string {
	text = reMutex.ReplaceAllString(text, "simMutex")
	text = reRWMutex.ReplaceAllString(text, "simRWMutex")
	text = reOnce.ReplaceAllString(text, "simOnce")
	text = reOnceFn.ReplaceAllString(text, "simOnce$1")
	if !reSyncUse.MatchString(reComment.ReplaceAllString(text, "")) {
		text = reSyncImp.ReplaceAllString(text, "")
		text = strings.Replace(text, "import \"sync\"\n", "", 1)
	}

	return text
}

func isSyncMutexType(e ast.Expr) bool {
	if st, ok := e.(*ast.StarExpr); ok {
		e = st.X
	}
	sel, ok := e.(*ast.SelectorExpr)
	if !ok {
		return false
	}
	id, ok := sel.X.(*ast.Ident)

	return ok && id.Name == "sync" && (sel.Sel.Name == "Mutex" || sel.Sel.Name == "RWMutex" || sel.Sel.Name == "Once")
}

// simulatedNames returns the names of the struct fields and variables of the
// file that are declared as (pointers to) sync.Mutex or sync.RWMutex, plus
// the variables initialised with &sync.Mutex{} and the like: Lock calls on
// them do not open a critical section in which yields must not be placed.
func simulatedNames(f *ast.File) map[string]bool {
	names := map[string]bool{}
	ast.Inspect(f, func(n ast.Node) bool {
		switch x := n.(type) {
		case *ast.Field:
			if isSyncMutexType(x.Type) {
				for _, id := range x.Names {
					names[id.Name] = true
				}
			}
		case *ast.ValueSpec:
			if x.Type != nil && isSyncMutexType(x.Type) {
				for _, id := range x.Names {
					names[id.Name] = true
				}
			}
			for i, v := range x.Values {
				if i < len(x.Names) && isMutexValue(v) {
					names[x.Names[i].Name] = true
				}
			}
		case *ast.AssignStmt:
			for i, v := range x.Rhs {
				if id, ok := x.Lhs[min(i, len(x.Lhs)-1)].(*ast.Ident); ok && len(x.Lhs) == len(x.Rhs) && isMutexValue(v) {
					names[id.Name] = true
				}
			}
		}

		return true
	})

	return names
}

// isMutexValue recognises sync.Mutex{}, &sync.Mutex{} and new(sync.Mutex).
func isMutexValue(e ast.Expr) bool {
	if u, ok := e.(*ast.UnaryExpr); ok {
		e = u.X
	}
	switch x := e.(type) {
	case *ast.CompositeLit:
		return x.Type != nil && isSyncMutexType(x.Type)
	case *ast.CallExpr:
		id, ok := x.Fun.(*ast.Ident)

		return ok && id.Name == "new" && len(x.Args) == 1 && isSyncMutexType(x.Args[0])
	}

	return false
}

// dropHookMutexes replaces the mutex argument of hand-placed hooks by nil: a
// simulated mutex needs no predicate on the hook in front of its Lock.
func dropHookMutexes(f *ast.File) {
	ast.Inspect(f, func(n ast.Node) bool {
		if ce, ok := n.(*ast.CallExpr); ok && len(ce.Args) == 2 {
			if id, ok := ce.Fun.(*ast.Ident); ok && strings.HasPrefix(id.Name, "simPo") {
				ce.Args[1] = ast.NewIdent("nil")
			}
		}

		return true
	})
}

func check(err error) {
	if err != nil {
		fmt.Fprintln(os.Stderr, "autoyield:", err)
		os.Exit(1)
	}
}

type inserter struct {
	fset *token.FileSet
	base string
	call string
	n    int

	// dropped counts hand-placed plain hooks removed from critical sections.
	dropped int

	// held is the lexical lock depth: the number of X.Lock()/X.RLock()
	// statements seen without a matching X.Unlock()/X.RUnlock() statement.  No
	// yield is inserted while it is positive: a task must never park inside a
	// critical section, because another task's Lock() of a mutex that has no
	// hand-placed hook would then block in a way the simulator cannot see and
	// a correct program would look hung.  The tracking is conservative: after
	// a nested block the larger of the depths before and after it is kept (an
	// early "Unlock(); return" branch does not end the outer section), and a
	// deferred Unlock keeps the section open until the function ends.
	held int

	// simNames: see simulatedNames; nil without -simsync.
	simNames map[string]bool
}

// lockDelta classifies a statement as a lock (+1) or unlock (-1) call.
func (in *inserter) lockDelta(s ast.Stmt) int {
	es, ok := s.(*ast.ExprStmt)
	if !ok {
		return 0
	}
	ce, ok := es.X.(*ast.CallExpr)
	if !ok || len(ce.Args) != 0 {
		return 0
	}
	sel, ok := ce.Fun.(*ast.SelectorExpr)
	if !ok {
		return 0
	}
	// A simulated mutex: not a section in which a parked task can hang others.
	switch r := sel.X.(type) {
	case *ast.Ident:
		if in.simNames[r.Name] {
			return 0
		}
	case *ast.SelectorExpr:
		if in.simNames[r.Sel.Name] {
			return 0
		}
	}
	switch sel.Sel.Name {
	case "Lock", "RLock":
		return 1
	case "Unlock", "RUnlock":
		return -1
	}

	return 0
}

func (in *inserter) yield(pos token.Pos) ast.Stmt {
	site := fmt.Sprintf("auto:%s:%d", in.base, in.fset.Position(pos).Line)
	expr, err := parser.ParseExpr(fmt.Sprintf(in.call, site))
	check(err)
	in.n++

	return &ast.ExprStmt{X: expr}
}

func isHook(s ast.Stmt) bool {
	es, ok := s.(*ast.ExprStmt)
	if !ok {
		return false
	}
	ce, ok := es.X.(*ast.CallExpr)
	if !ok {
		return false
	}
	id, ok := ce.Fun.(*ast.Ident)

	return ok && strings.HasPrefix(id.Name, "simPo")
}

// isPlainHook reports whether s is a hook call that carries no mutex (one
// argument, or nil as the second).
func isPlainHook(s ast.Stmt) bool {
	if !isHook(s) {
		return false
	}
	ce := s.(*ast.ExprStmt).X.(*ast.CallExpr)
	if len(ce.Args) < 2 {
		return true
	}
	id, ok := ce.Args[1].(*ast.Ident)

	return ok && id.Name == "nil"
}

// onceLike reports whether call looks like sync.OnceFunc/OnceValue(s) or
// (*sync.Once).Do: a function literal passed to it runs under the Once's
// internal mutex, so no yield may be placed inside it.
func onceLike(call *ast.CallExpr) bool {
	switch f := call.Fun.(type) {
	case *ast.SelectorExpr:
		return strings.Contains(f.Sel.Name, "Once") || f.Sel.Name == "Do"
	case *ast.Ident:
		return strings.Contains(f.Name, "Once")
	case *ast.IndexExpr:
		if sel, ok := f.X.(*ast.SelectorExpr); ok {
			return strings.Contains(sel.Sel.Name, "Once")
		}
	}

	return false
}

// simReceiver reports whether call is a method call on a field or variable
// whose type was replaced by a simulated one (a simulated Once may have yields
// inside the function it runs).
func (in *inserter) simReceiver(call *ast.CallExpr) bool {
	sel, ok := call.Fun.(*ast.SelectorExpr)
	if !ok {
		return false
	}
	switch r := sel.X.(type) {
	case *ast.Ident:
		return in.simNames[r.Name]
	case *ast.SelectorExpr:
		return in.simNames[r.Sel.Name]
	}

	return false
}

func (in *inserter) list(stmts []ast.Stmt) []ast.Stmt {
	var out []ast.Stmt
	for i, s := range stmts {
		if in.held > 0 && isPlainHook(s) {
			// A hand-placed yield without a mutex predicate that ended up
			// inside a critical section (after a refactoring): dropped, for
			// the same reason as no yield is inserted there.
			in.dropped++

			continue
		}
		prevHook := i > 0 && isHook(stmts[i-1])
		if !isHook(s) && !prevHook && in.held == 0 {
			if _, isDecl := s.(*ast.DeclStmt); !isDecl {
				out = append(out, in.yield(s.Pos()))
			}
		}
		before := in.held
		in.stmt(s)
		in.held = max(before, in.held)
		if d := in.lockDelta(s); d != 0 {
			in.held = max(0, before+d)
		}
		out = append(out, s)
	}

	return out
}

func (in *inserter) block(b *ast.BlockStmt) {
	if b != nil {
		b.List = in.list(b.List)
	}
}

// exprs instruments function literals inside a statement.
func (in *inserter) exprs(n ast.Node) {
	ast.Inspect(n, func(x ast.Node) bool {
		if call, ok := x.(*ast.CallExpr); ok && onceLike(call) && !in.simReceiver(call) {
			// Function literals among the arguments stay uninstrumented, and
			// hand-placed plain hooks inside them are dropped.
			for _, a := range call.Args {
				if fl, isLit := a.(*ast.FuncLit); isLit {
					outer := in.held
					in.held = 1 << 20
					in.block(fl.Body)
					in.held = outer
				}
			}

			return false
		}
		if fl, ok := x.(*ast.FuncLit); ok {
			// A function literal runs at another time: its own lock depth.
			outer := in.held
			in.held = 0
			in.block(fl.Body)
			in.held = outer

			return false
		}
		_, isStmtBlock := x.(*ast.BlockStmt)

		return !isStmtBlock
	})
}

func (in *inserter) stmt(s ast.Stmt) {
	switch x := s.(type) {
	case *ast.BlockStmt:
		in.block(x)
	case *ast.IfStmt:
		in.exprs(x.Cond)
		in.block(x.Body)
		if x.Else != nil {
			in.stmt(x.Else)
		}
	case *ast.ForStmt:
		in.block(x.Body)
	case *ast.RangeStmt:
		in.block(x.Body)
	case *ast.SwitchStmt:
		for _, c := range x.Body.List {
			cc := c.(*ast.CaseClause)
			cc.Body = in.list(cc.Body)
		}
	case *ast.TypeSwitchStmt:
		for _, c := range x.Body.List {
			cc := c.(*ast.CaseClause)
			cc.Body = in.list(cc.Body)
		}
	case *ast.SelectStmt:
		for _, c := range x.Body.List {
			cc := c.(*ast.CommClause)
			cc.Body = in.list(cc.Body)
		}
	case *ast.LabeledStmt:
		in.stmt(x.Stmt)
	default:
		in.exprs(s)
	}
}
