// Package canary validates the hygiene of the kernel's race oracle: the
// scheduler's own hand-off must neither hide a race between tasks nor invent
// one.  It is not a check of a golibs property; tools/selftest.py runs it.
package canary

import (
	"sync"
	"testing"

	"github.com/AdguardTeam/golibs/syncutil"

	"verif/sim/kernel"
)

func TestWorker(t *testing.T) {
	kernel.WorkerMain(t, &kernel.Check{
		ID:           "CANARY",
		Bubble:       true,
		RaceAnywhere: true,
		Setup: func() {
			syncutil.SimPoolGet = kernel.PoolGet
			syncutil.SimPoolPut = kernel.PoolPut
		},
		Run: run,
	})
}

type box struct{ n int }

// Modes.  Even modes are correctly synchronised (no report allowed), odd
// modes are not (a report is required whenever both accesses happened).
const (
	modeMutex     = 0 // counter under a mutex, yields inside the critical section
	modeNone      = 1 // counter without synchronisation
	modeChannel   = 2 // value handed over through a channel of the code's own
	modeNoneSeq   = 3 // unsynchronised, tasks run strictly one after the other
	modePool      = 4 // object handed over through the simulated pool
	modePoolAfter = 5 // object used after it was put into the pool
	numModes      = 6
)

func run(rc *kernel.RunCtx) {
	tp := rc.Tape
	k := kernel.NewKernel(tp)
	k.KeepLog = rc.KeepLog
	ps := k.EnablePool(rc.Stats)
	ps.DropPuts, ps.MissRate, ps.Newest = 0, 0, true
	mode := tp.Choose(numModes)
	k.Logf("mode ", kernel.Itoa(mode))
	rc.Stats.Probe("mode-" + kernel.Itoa(mode))

	var mu sync.Mutex
	counter := 0
	ch := make(chan *box, 1)
	pool := syncutil.NewPool(func() *box { return &box{} })
	nTasks := 2 + tp.Choose(2)
	accessed := 0 // scheduler-side

	for ti := 0; ti < nTasks; ti++ {
		ti := ti
		k.Go("T"+kernel.Itoa(ti), false, func() {
			switch mode {
			case modeMutex:
				for i := 0; i < 2; i++ {
					k.YieldOpts(kernel.Opts{Site: "lock", Mu: &mu})
					mu.Lock()
					counter++
					k.Yield("inside")
					counter++
					mu.Unlock()
				}
			case modeNone:
				k.Yield("a")
				counter++
				k.Tell("done", func() { accessed++ })
			case modeNoneSeq:
				// Only runnable when every task with a lower index has exited.
				k.YieldOpts(kernel.Opts{Site: "turn", Pred: func() bool {
					for _, t := range k.Tasks() {
						if t.Idx < ti && !t.Exited() {
							return false
						}
					}

					return true
				}})
				counter++
				k.Tell("done", func() { accessed++ })
			case modeChannel:
				if ti == 0 {
					b := &box{n: 1}
					k.Yield("before-send")
					ch <- b
				} else if ti == 1 {
					k.Yield("before-recv")
					b := <-ch
					b.n++
				}
			case modePool, modePoolAfter:
				k.Yield("a")
				b := pool.Get()
				b.n++
				k.Yield("b")
				pool.Put(b)
				if mode == modePoolAfter {
					k.Yield("c")
					b.n++ // use after Put
					k.Tell("done", func() { accessed++ })
				}
			}
		})
	}
	k.Run()
	k.Finish()
	rc.Adopt(k)
	// The self-test reads the mode of every run from the signature column of
	// the per-run hash file (race reports are attributed after Run returns).
	rc.Sig = uint64(mode)
	if accessed < 2 && (mode == modeNone || mode == modeNoneSeq) {
		rc.Sig = 99
	}
	_ = counter
}
