//go:build simsync

package c10

import (
	"github.com/AdguardTeam/golibs/cache"

	"verif/sim/kernel"
)

// Built with the -simsync overlay: sync.Mutex, sync.RWMutex and sync.Once in
// the instrumented files of the package are simulated primitives (SimSync is
// added by the overlay, not by the repository).
func init() { simsyncHooks = func() { cache.SimSync = kernel.SimSync } }
