// Package c17 decides property C17: OnceConstructor constructs exactly once
// per key and ChanSemaphore bounds its holders.  Real code:
// github.com/AdguardTeam/golibs/syncutil, built with yields inserted before
// every statement (tools/autoyield overlay) in addition to the guarded hooks.
// The simulator owns which goroutine runs next, the slowness of constructors
// and the cancellation of contexts; blocking on channels inside the code under
// test is observed through bubble quiescence.
package c17

import (
	"context"
	"errors"
	"fmt"
	"runtime/debug"
	"slices"
	"sync/atomic"
	"testing"
	"time"

	"github.com/AdguardTeam/golibs/syncutil"

	"verif/sim/kernel"
)

func TestWorker(t *testing.T) {
	kernel.WorkerMain(t, &kernel.Check{
		ID:     "C17",
		Bubble: true,
		Setup: func() {
			syncutil.SimHook = kernel.HookSite
			if overlayHooks != nil {
				overlayHooks()
			}
			if simsyncHooks != nil {
				simsyncHooks()
			}
		},
		Run: run,
	})
}

func run(rc *kernel.RunCtx) {
	tp := rc.Tape
	k := kernel.NewKernel(tp)
	k.KeepLog = rc.KeepLog
	if tp.Bool(1, 300) {
		runOnceManyKeys(rc, k)

		return
	}
	if tp.Bool(1, 300) {
		runSemaLarge(rc, k)

		return
	}
	if tp.Bool(1, 300) {
		runOnceKeyKinds(rc, k)

		return
	}
	switch tp.Choose(5) {
	case 0, 1:
		runOnce(rc, k)
	case 2, 3:
		runSema(rc, k, false)
	default:
		runSema(rc, k, true)
	}
}

// ---- OnceConstructor ----

type val struct {
	key int
	id  int
}

func runOnce(rc *kernel.RunCtx, k *kernel.Kernel) {
	tp := rc.Tape
	nTasks := tp.Range(2, 5)
	nKeys := tp.Range(1, 3)
	plans := make([][]int, nTasks)
	for ti := range plans {
		for n := tp.Range(1, 3); n > 0; n-- {
			plans[ti] = append(plans[ti], tp.Choose(nKeys))
		}
	}
	slow := make([]int, nKeys)
	// The value type is an interface type; for some keys the constructor's
	// single result is the nil interface value.
	nilKey := make([]bool, nKeys)
	// For some keys the result is a value of a function type (a thunk), which
	// an interface value can hold like any other.
	thunkKey := make([]bool, nKeys)
	for i := range slow {
		slow[i] = tp.Choose(3)
		nilKey[i] = tp.Bool(1, 5)
		thunkKey[i] = !nilKey[i] && tp.Bool(1, 5)
	}
	holdKey, nested := -1, false
	switch tp.Choose(4) {
	case 0, 1:
		holdKey = tp.Choose(nKeys)
	case 2:
		nested = nKeys > 1
	}
	// Fault: the first invocation of one key's constructor panics.  The
	// statement says nothing about that key then (there is no "single result":
	// an implementation may block the key's callers forever, hand the panic or
	// a zero value to them, or construct again); what it still requires is
	// that the other keys are not affected.
	panicKey := -1
	if !nested && tp.Bool(1, 6) {
		panicKey = tp.Choose(nKeys)
		rc.Stats.Fault("constructor-panic")
	}
	k.Logf("once: tasks=", kernel.Itoa(nTasks), " keys=", kernel.Itoa(nKeys), " hold=", kernel.Itoa(holdKey), " nested=", btoa(nested), " panic=", kernel.Itoa(panicKey))

	// Scheduler-side state.
	count := make([]int, nKeys)
	made := make([]any, nKeys)
	panicked := make([]int, nKeys)
	constructed := make([]bool, nKeys)
	returned := make([]int, nKeys)
	inGet := make([]int, nTasks)
	for i := range inGet {
		inGet[i] = -1
	}
	released := false
	heldStarted := false

	// ctorEntered is set by the constructor itself before its first yield
	// (scheduler-side state lags by the notes of the current step when a run
	// stalls); only OnStall reads it.
	ctorEntered := make([]atomic.Bool, nKeys)

	var oc *syncutil.OnceConstructor[int, any]
	oc = syncutil.NewOnceConstructor(func(key int) any {
		ctorEntered[key].Store(true)
		id := k.Ask("ctor.begin", func() any {
			count[key]++
			k.Logf("  construct key ", kernel.Itoa(key), " #", kernel.Itoa(count[key]))
			if count[key] > 1+panicked[key] {
				k.Fail("constructed-twice", "OnceConstructor.Get",
					"the constructor was invoked "+kernel.Itoa(count[key])+" times for key "+kernel.Itoa(key))
			}

			return count[key]
		}).(int)
		for i := 0; i < slow[key]; i++ {
			k.Yield("ctor.slow")
		}
		if nested && key+1 < nKeys {
			// Construction of one key may need another one.
			_ = oc.Get(key + 1)
		}
		if key == holdKey {
			k.YieldOpts(kernel.Opts{
				Site: "ctor.hold",
				Post: func() { heldStarted = true },
				Pred: func() bool { return released },
			})
		}
		if key == panicKey && id == 1 {
			k.Tell("ctor.panic", func() { panicked[key]++ })
			panic(errCtor)
		}
		var v any
		var p *val
		if !nilKey[key] {
			p = &val{key: key, id: id}
			v = p
			if thunkKey[key] {
				v = func() any { return p }
			}
		}
		k.Tell("ctor.made", func() { made[key], constructed[key] = p, true })

		return v
	})
	// same reports whether a value returned by Get is the constructed result
	// of key (made holds the pointer behind a thunk).
	same := func(v any, key int) bool {
		if thunkKey[key] {
			f, ok := v.(func() any)

			return ok && f() == any(made[key])
		}
		if nilKey[key] {
			return v == nil
		}
		p, ok := v.(*val)

		return ok && any(p) == made[key]
	}

	// A stall (a Get waits for a mutex whose holder is parked): that is how an
	// implementation whose waiters queue on a mutex (sync.Once) looks to a
	// cooperative scheduler, and it says nothing against it - unless the
	// waiting Get is for a key that nobody is constructing.
	k.OnStall = func(info *kernel.StallInfo) *kernel.Violation {
		if nested {
			return nil
		}
		for _, id := range info.MutexBlocked {
			t := k.TaskOfGoid(id)
			if t == nil || t.Idx >= nTasks || inGet[t.Idx] < 0 {
				continue
			}
			// Benign: the key's construction has begun and no Get of it has
			// come back yet (the holder may be parked anywhere inside the
			// constructor or right after it).
			key := inGet[t.Idx]
			if panicked[key] > 0 {
				continue
			}
			if !ctorEntered[key].Load() || returned[key] > 0 {
				return &kernel.Violation{
					Class: "not-independent",
					Site:  "OnceConstructor.Get",
					Msg: "task " + t.Name + " waits for a lock in Get(" + kernel.Itoa(key) +
						") although that key is not under construction (the lock is held across the construction of another key, or after the result was handed out)",
				}
			}
		}

		return nil
	}

	for ti := 0; ti < nTasks; ti++ {
		ti := ti
		k.Go("T"+kernel.Itoa(ti), false, func() {
			for _, key := range plans[ti] {
				key := key
				k.Ask("inv Get", func() any { inGet[ti] = key; return nil })
				v, pv, stack := safeGet(oc, key)
				if pv == any(errCtor) && key == panicKey {
					// The constructor's panic reached this caller.
					k.Tell("ret Get (panic)", func() { inGet[ti] = -1 })

					continue
				}
				if pv != nil {
					k.Report("panic", kernel.PanicSite(stack), fmt.Sprintf("Get(%d) panicked: %v\n%s", key, pv, stack))

					return
				}
				k.Tell("ret Get", func() {
					inGet[ti] = -1
					returned[key]++
					k.Logf("  T", kernel.Itoa(ti), " Get(", kernel.Itoa(key), ") returned")
					switch {
					case panicked[key] > 0:
						// Not judged, see above.
					case !constructed[key]:
						k.Fail("wrong-result", "OnceConstructor.Get", "Get("+kernel.Itoa(key)+") returned before the constructor had produced its result")
					case v == nil && !nilKey[key]:
						k.Fail("wrong-result", "OnceConstructor.Get", "Get("+kernel.Itoa(key)+") returned the zero value instead of the constructed one")
					case !same(v, key):
						k.Fail("wrong-result", "OnceConstructor.Get", "Get("+kernel.Itoa(key)+") returned a value that is not the single constructed result")
					case count[key]-panicked[key] != 1:
						k.Fail("constructed-twice", "OnceConstructor.Get", "Get returned although the constructor ran "+kernel.Itoa(count[key])+" times")
					}
				})
			}
		})
	}

	k.Run()

	if !k.Failed() && k.HarnessErr == "" && k.Inconclusive == "" && holdKey >= 0 && heldStarted && !released {
		// The constructor of holdKey is parked.  Independence: nobody asking
		// for another key may be blocked now.
		rc.Stats.Probe("once-constructor-held")
		for _, t := range k.Tasks() {
			if t.Idx < nTasks && inGet[t.Idx] >= 0 && inGet[t.Idx] != holdKey && panicked[inGet[t.Idx]] == 0 && (t.IsBlocked() || t.IsLockWaiting()) {
				k.Fail("not-independent", "OnceConstructor.Get", "task "+t.Name+" is blocked in Get("+kernel.Itoa(inGet[t.Idx])+
					") while only the construction of key "+kernel.Itoa(holdKey)+" is in progress")

				break
			}
		}
	}
	if !k.Failed() && k.HarnessErr == "" && k.Inconclusive == "" {
		released = true
		k.Run()
	}
	if !k.Failed() && k.HarnessErr == "" && k.Inconclusive == "" {
		for _, t := range k.Tasks() {
			if !t.Daemon && !t.Exited() && t.Idx < nTasks && inGet[t.Idx] >= 0 && panicked[inGet[t.Idx]] > 0 {
				// Callers of a key whose construction panicked may wait forever.
				continue
			}
			if !t.Daemon && !t.Exited() {
				k.Fail("lost-wakeup", "OnceConstructor.Get", "task "+t.Name+" is still blocked in Get("+kernel.Itoa(inGet[t.Idx])+
					") although no construction is in progress")

				break
			}
		}
	}
	k.Finish()
	rc.Adopt(k)
}

// runOnceManyKeys is a sequential history over one OnceConstructor instance
// with many keys (no scheduler: the hooks are no-ops outside Kernel.Run): state
// must not leak from the construction of one key into a much later Get of
// another.
func runOnceManyKeys(rc *kernel.RunCtx, k *kernel.Kernel) {
	tp := rc.Tape
	n := tp.Range(1, 10000)
	rc.Stats.Probe("once-many-keys")
	counts := make([]int, n)
	oc := syncutil.NewOnceConstructor(func(key int) any {
		counts[key]++

		return &val{key: key, id: counts[key]}
	})
	first := make([]any, n)
	for key := 0; key < n; key++ {
		first[key] = oc.Get(key)
	}
	for i := 0; i < 64; i++ {
		key := tp.Choose(n)
		if i == 0 {
			key = 0
		}
		v := oc.Get(key)
		if counts[key] != 1 || v != first[key] {
			k.Fail("constructed-twice", "OnceConstructor.Get", "after "+kernel.Itoa(n)+" keys had been constructed on one instance, Get("+
				kernel.Itoa(key)+") ran the constructor "+kernel.Itoa(counts[key])+" times or returned a different result")

			break
		}
	}
	k.Logf("once: ", kernel.Itoa(n), " keys sequentially")
	rc.Adopt(k)
	rc.NonTrivial = false
}

// pairKey and the values below: keys of an OnceConstructor[any, any] that
// differ under == although they print, hash or marshal alike, next to keys
// that are equal under == although they are different interface values.
type pairKey struct{ a, b string }

// runOnceKeyKinds is a sequential history (no scheduler) over an
// OnceConstructor whose key type is an interface: "once per key" is once per
// class of == on K, whatever the dynamic types of the keys.
func runOnceKeyKinds(rc *kernel.RunCtx, k *kernel.Kernel) {
	tp := rc.Tape
	rc.Stats.Probe("once-key-kinds")
	p1, p2 := new(int), new(int)
	// classes[i] lists interface values that are one key.
	classes := [][]any{
		{int(1), int(1)}, {int64(1)}, {uint8(1)}, {"1"}, {float64(1), float64(1)}, {true}, {"true"},
		{pairKey{"a", "bc"}, pairKey{"a", "bc"}}, {pairKey{"ab", "c"}}, {[2]int{1, 2}, [2]int{1, 2}}, {[2]int{2, 1}},
		{p1, p1}, {p2}, {""}, {nil}, {int(0)}, {struct{}{}},
	}
	classOf := func(key any) int {
		for i, cl := range classes {
			if cl[0] == key {
				return i
			}
		}

		return -1
	}
	counts := make([]int, len(classes))
	oc := syncutil.NewOnceConstructor(func(key any) any {
		i := classOf(key)
		counts[i]++

		return &val{key: i, id: counts[i]}
	})
	first := make([]any, len(classes))
	for n := tp.Range(len(classes), 4*len(classes)); n > 0; n-- {
		i := tp.Choose(len(classes))
		key := classes[i][tp.Choose(len(classes[i]))]
		v := oc.Get(key)
		if first[i] == nil {
			first[i] = v
		}
		if got, _ := v.(*val); got == nil || got.key != i || counts[i] != 1 || v != first[i] {
			k.Fail("constructed-twice", "OnceConstructor.Get", "on an OnceConstructor with an interface key type, Get of a key of class "+kernel.Itoa(i)+
				" (dynamic type "+fmt.Sprintf("%T", key)+") ran the constructor "+kernel.Itoa(counts[i])+" times for that class or returned the result of another key")

			break
		}
	}
	k.Logf("once: key kinds")
	rc.Adopt(k)
	rc.NonTrivial = false
}

var errCtor = errors.New("verif: constructor failed")

// runSemaLarge is a sequential history over a semaphore with a large limit (no
// scheduler: the hooks are no-ops outside Kernel.Run): n Acquires succeed, the
// next one - on a context that is done, so that it cannot wait - must not.
func runSemaLarge(rc *kernel.RunCtx, k *kernel.Kernel) {
	tp := rc.Tape
	n := []int{2, 3, 64, 65, 127, 128, 255, 256, 257, 258, 511, 513, 1000, 1023, 1025}[tp.Choose(15)]
	rc.Stats.Probe("sema-large-limit")
	sem := syncutil.NewChanSemaphore(uint(n))
	done, cancel := context.WithCancel(context.Background())
	cancel()
	held := 0
	for i := 0; i < n+3; i++ {
		// While slots are free a done context may or may not win the select
		// (two ready cases); once n are held it has to.
		err := sem.Acquire(done)
		if err == nil {
			held++
		}
		if held > n {
			k.Fail("too-many-holders", "ChanSemaphore.Acquire",
				kernel.Itoa(held)+" successful Acquires are outstanding on a semaphore of capacity "+kernel.Itoa(n))

			break
		}
		if err != nil && held < n {
			// Lost the coin toss: take the slot with a live context.
			if sem.Acquire(context.Background()) == nil {
				held++
			}
		}
	}
	for ; held > 0; held-- {
		sem.Release()
	}
	k.Logf("sema: limit ", kernel.Itoa(n), " sequentially")
	rc.Adopt(k)
	rc.NonTrivial = false
	rc.Nondet = true
}

func safeGet(oc *syncutil.OnceConstructor[int, any], key int) (v any, pv any, stack string) {
	defer func() {
		if r := recover(); r != nil {
			if kernel.IsAbort(r) {
				panic(r)
			}
			pv, stack = r, string(debug.Stack())
		}
	}()

	return oc.Get(key), nil, ""
}

func btoa(b bool) string {
	if b {
		return "1"
	}

	return "0"
}

// ---- ChanSemaphore ----

const (
	doNothing = iota
	doAcquire
	doRelease
	doRenew
)

func runSema(rc *kernel.RunCtx, k *kernel.Kernel, misuse bool) {
	tp := rc.Tape
	capacity := tp.Choose(4)
	nTasks := tp.Range(2, 5)
	nOps := make([]int, nTasks)
	for i := range nOps {
		nOps[i] = tp.Range(1, 6)
	}
	k.Logf("sema: capacity=", kernel.Itoa(capacity), " tasks=", kernel.Itoa(nTasks), " misuse=", btoa(misuse))
	sem := syncutil.NewChanSemaphore(uint(capacity))

	// Scheduler-side state.
	holding := make([]bool, nTasks)
	inAcq := make([]bool, nTasks)
	inRel := make([]bool, nTasks)
	cancelled := make([]bool, nTasks)
	issuedDone := make([]bool, nTasks)    // Acquire issued on an already done context
	relSinceCancel := make([]int, nTasks) // Release calls invoked since the task's context was cancelled
	tasks := make([]*kernel.Task, nTasks)

	// Contexts are created up front on the scheduler goroutine (before any
	// task starts), so that handing a cancel function to the environment task
	// needs no synchronisation of the harness's own.
	type ctxPair struct {
		ctx    context.Context
		cancel context.CancelFunc
	}
	ctxs := make([][]ctxPair, nTasks)
	curCtx := make([]int, nTasks)
	useCause := tp.Bool(1, 3)
	useDeadline := !useCause && tp.Bool(1, 2)
	cause := errors.New("custom cancellation cause")
	// With deadlines: one task's first context has a nearer deadline than all
	// others, and the clock may pass it after that context has been cancelled
	// (its error stays context.Canceled).
	victim := tp.Choose(nTasks)
	clockJump := useDeadline && tp.Bool(1, 2)
	for i := range ctxs {
		for j := 0; j <= nOps[i]; j++ {
			if useDeadline {
				// A context with a far deadline (simulated time never gets
				// there while it is live) that is cancelled early.
				d := 1000 * time.Hour
				if i == victim && j == 0 {
					d = time.Hour
				}
				c, cf := context.WithTimeout(context.Background(), d)
				ctxs[i] = append(ctxs[i], ctxPair{ctx: c, cancel: cf})

				continue
			}
			if useCause {
				// Cancelled with a cause: ctx.Err() is still context.Canceled.
				c, cf := context.WithCancelCause(context.Background())
				ctxs[i] = append(ctxs[i], ctxPair{ctx: c, cancel: func() { cf(cause) }})

				continue
			}
			c, cf := context.WithCancel(context.Background())
			ctxs[i] = append(ctxs[i], ctxPair{ctx: c, cancel: cf})
		}
	}
	nHolding := func() (n int) {
		for _, h := range holding {
			if h {
				n++
			}
		}

		return n
	}

	k.AfterDrain = func() {
		if !misuse && nHolding() > capacity {
			k.Fail("too-many-holders", "ChanSemaphore.Acquire",
				kernel.Itoa(nHolding())+" successful Acquires are outstanding on a semaphore of capacity "+kernel.Itoa(capacity))

			return
		}
		upper := nHolding()
		for i := range tasks {
			if (inAcq[i] && tasks[i].IsParked()) || inRel[i] {
				upper++
			}
		}
		for i, t := range tasks {
			switch {
			case inRel[i] && t.IsBlocked():
				k.Fail("release-blocked", "ChanSemaphore.Release", "Release called by "+t.Name+" blocks")

				return
			case misuse:
			case inAcq[i] && t.IsBlocked() && upper < capacity:
				k.Fail("acquire-blocked-with-free-slot", "ChanSemaphore.Acquire",
					"Acquire of "+t.Name+" blocks although at most "+kernel.Itoa(upper)+" of "+kernel.Itoa(capacity)+" slots can be taken")

				return
			}
		}
		// An Acquire whose context is done, while every slot is certainly held
		// and no Release is in progress, that waits for a lock of the
		// implementation - and nothing inside the implementation can move:
		// every other task is outside the code under test or durably blocked
		// in it (not parked at a yield inside a critical section, which would
		// be an artefact of cooperative scheduling).  Whoever holds that lock
		// holds it for as long as the environment pleases; the waiting call
		// cannot return its context's error, though that is what the
		// statement demands of it now.
		if misuse || nHolding() != capacity || slices.Contains(inRel, true) {
			return
		}
		for i, t := range tasks {
			if !inAcq[i] || !cancelled[i] || !t.IsLockWaiting() {
				continue
			}
			still := true
			for _, o := range k.Tasks() {
				switch {
				case o == t || o.Exited() || o.IsBlocked():
				case o.Dynamic:
					still = false
				case o.Idx < nTasks && o == tasks[o.Idx] && !inAcq[o.Idx] && !inRel[o.Idx]:
				case o.Daemon:
				default:
					still = false
				}
			}
			if still {
				k.Fail("acquire-ignores-done-context", "ChanSemaphore.Acquire",
					"Acquire of "+t.Name+" waits for a lock that a blocked call holds, although its context is done, every slot is held and nothing inside the semaphore can move")

				return
			}
		}
	}

	for ti := 0; ti < nTasks; ti++ {
		ti := ti
		tasks[ti] = k.Go("T"+kernel.Itoa(ti), false, func() {
			mine := ctxs[ti]
			cur := 0
			ctx := mine[cur].ctx
			for i := 0; i < nOps[ti]; i++ {
				op := k.Ask("next", func() any {
					op := doNothing
					switch {
					case misuse && cancelled[ti]:
						// Never Acquire on a done context here: with a free
						// slot both select cases would be ready.
						op = doRenew
					case misuse:
						op = doAcquire
						if tp.Bool(1, 2) {
							op = doRelease
						}
					case holding[ti]:
						if tp.Bool(2, 3) {
							op = doRelease
						}
					case cancelled[ti]:
						op = doRenew
						if nHolding() == capacity && tp.Bool(1, 2) {
							// No slot can be free: Acquire on a done context
							// must fail, and runs exclusively so that no slot
							// becomes free before its select.
							op = doAcquire
							issuedDone[ti] = true
							// Exclusive running is a request, not a guarantee: an
							// implementation with a lock of its own can make this
							// task wait for a task that is parked inside the code
							// under test, and the others then run (and release)
							// meanwhile.  Releases invoked from here on are
							// counted, and a nil result after one is not judged.
							relSinceCancel[ti] = 0
							k.Exclusive = tasks[ti]
							rc.Stats.Probe("sema-acquire-on-done-context")
						}
					default:
						op = doAcquire
					}
					switch op {
					case doAcquire:
						inAcq[ti] = true
					case doRelease:
						holding[ti] = false
						inRel[ti] = true
						for j := range relSinceCancel {
							relSinceCancel[j]++
						}
					}

					return op
				}).(int)
				switch op {
				case doAcquire:
					err := sem.Acquire(ctx)
					ctxErr := ctx.Err()
					k.Tell("ret Acquire", func() {
						inAcq[ti] = false
						if k.Exclusive == tasks[ti] {
							k.Exclusive = nil
						}
						wasDone := issuedDone[ti]
						issuedDone[ti] = false
						if err == nil {
							k.Logf("  T", kernel.Itoa(ti), " Acquire = nil")
							if !misuse && cancelled[ti] && relSinceCancel[ti] > 0 {
								// A slot was released after the cancellation
								// and before this Acquire came back: taking it
								// is not excluded by the statement.
								rc.Stats.Probe("sema-acquired-after-cancel-thanks-to-release")
								holding[ti] = true

								return
							}
							if !misuse && (wasDone || cancelled[ti]) {
								k.Fail("acquire-nil-on-done-context", "ChanSemaphore.Acquire",
									"Acquire of T"+kernel.Itoa(ti)+" returned nil although its context was done while no slot was free")

								return
							}
							holding[ti] = true

							return
						}
						k.Logf("  T", kernel.Itoa(ti), " Acquire = error")
						if misuse && cancelled[ti] && errors.Is(err, context.Canceled) {
							return
						}
						if !cancelled[ti] || err != ctxErr || !errors.Is(err, context.Canceled) {
							k.Fail("acquire-error", "ChanSemaphore.Acquire", "Acquire of T"+kernel.Itoa(ti)+
								" returned an error that is not its done context's error: "+err.Error())
						}
					})
				case doRelease:
					sem.Release()
					k.Tell("ret Release", func() {
						inRel[ti] = false
						k.Logf("  T", kernel.Itoa(ti), " Release returned")
					})
				case doRenew:
					cur++
					ctx = mine[cur].ctx
					k.Tell("renew", func() { curCtx[ti]++; cancelled[ti] = false })
				}
			}
		})
	}

	// The environment: cancels the context of an Acquire that is blocked
	// (blocked at quiescence means no slot is free, so afterwards exactly one
	// case of its select is ready).
	blockedAcquirers := func() (ids []int) {
		for i, t := range tasks {
			if inAcq[i] && t.IsBlocked() && !cancelled[i] {
				ids = append(ids, i)
			}
		}

		return ids
	}
	if clockJump {
		k.Go("clock", true, func() {
			k.YieldOpts(kernel.Opts{
				Site: "clock-jump",
				Pred: func() bool { return cancelled[victim] && curCtx[victim] == 0 },
				Act: func() any {
					// Simulated time passes (the scheduler goroutine sleeps in
					// the bubble's fake time while every task is parked).
					time.Sleep(2 * time.Hour)
					rc.Stats.Fault("clock-passes-deadline-of-cancelled-context")
					k.Logf("  clock jumps beyond the deadline of T", kernel.Itoa(victim), "'s cancelled context")

					return nil
				},
			})
			k.YieldOpts(kernel.Opts{Site: "clock.done", Pred: func() bool { return false }})
		})
	}
	k.Go("canceller", true, func() {
		for {
			f := k.YieldOpts(kernel.Opts{
				Site: "cancel",
				Pred: func() bool { return len(blockedAcquirers()) > 0 },
				Act: func() any {
					ids := blockedAcquirers()
					i := ids[tp.Choose(len(ids))]
					cancelled[i] = true
					// Releases that are in flight at this moment may still
					// hand a slot over after the cancellation, and so may a
					// slot that is not known to be taken: "blocked" means
					// that no slot is free only for an implementation that
					// hands a freed slot over at once; one that leaves it
					// pending for a waiter it has woken (a grant counter and
					// a condition variable, say) may give it to this one
					// instead.  Only tasks whose Acquire has returned
					// certainly hold a slot.
					relSinceCancel[i] = max(0, capacity-nHolding())
					for _, r := range inRel {
						if r {
							relSinceCancel[i]++
						}
					}
					rc.Stats.Fault("context-cancelled-while-blocked")
					k.Logf("  cancel context of T", kernel.Itoa(i))

					return ctxs[i][curCtx[i]].cancel
				},
			}).(context.CancelFunc)
			f()
		}
	})

	k.Run()

	if !k.Failed() && k.HarnessErr == "" && k.Inconclusive == "" && !misuse {
		// Nothing can run any more.  An Acquire whose context is done must have
		// come back by now.  (Not demanded earlier: an implementation may need
		// steps of its own to notice - a context.AfterFunc goroutine that has
		// to take a mutex and wake the waiter, say.)
		for i, t := range tasks {
			if inAcq[i] && (t.IsBlocked() || t.IsLockWaiting()) && cancelled[i] {
				k.Fail("acquire-ignores-done-context", "ChanSemaphore.Acquire",
					"Acquire of "+t.Name+" stays blocked although its context is done and nothing else can run")

				break
			}
		}
	}
	if !k.Failed() && k.HarnessErr == "" && k.Inconclusive == "" {
		for _, t := range k.Tasks() {
			if !t.Daemon && !t.Exited() {
				k.Fail("stuck", "ChanSemaphore", "task "+t.Name+" cannot finish (parked at "+t.ParkedSite()+")")

				break
			}
		}
	}
	k.Finish()
	rc.Adopt(k)
}

// overlayHooks is set by autoyield_test.go when the check is built with the
// statement-level yield overlay.
var overlayHooks func()

// simsyncHooks is set by simsync_test.go when the check is built with
// simulated mutexes.
var simsyncHooks func()
