package kernel

import (
	"cmp"
	"runtime"
	"runtime/debug"
	"slices"
	"strconv"
	"sync"
	"testing/synctest"
	"unsafe"
)

// Violation is what an oracle reports.  Class and Site together form the
// signature used by the shrinker ("the same violation must persist") and by
// the known-findings file.
type Violation struct {
	Class string `json:"class"`
	Site  string `json:"site"`
	Msg   string `json:"message"`
}

// Signature returns the stable identity of a violation.
func (v *Violation) Signature() string { return v.Class + "@" + v.Site }

// Opts describes one yield.  Pred, Act and Post are evaluated on the
// scheduler goroutine: they may touch simulator state (tape, model, pool,
// clock) but never state shared with the code under test, and on the
// non-failing path they must not use fmt or anything else that goes through a
// sync.Pool (that would leak happens-before edges out of the scheduler).
type Opts struct {
	// Site names the yield point.
	Site string

	// Mu, if not nil, makes the task runnable only while the mutex is free.
	Mu *sync.Mutex

	// Pred, if not nil, makes the task runnable only while it returns true.
	Pred func() bool

	// Act is evaluated when the scheduler picks the task; its result is what
	// the yield returns.
	Act func() any

	// Post is evaluated when the scheduler receives the note (end of the step
	// in which the task ran).
	Post func()
}

const (
	stRunning = iota
	stParked
	stExited
)

// Task is a goroutine known to the scheduler.
type Task struct {
	Name    string
	Idx     int
	Daemon  bool
	Dynamic bool

	goid  uint64
	state int
	note  *note

	// PanicVal and PanicStack are set if the task's function panicked.
	PanicVal   any
	PanicStack string
}

type note struct {
	task       *Task
	reply      chan resume
	panicVal   any
	o          Opts
	panicStack string
	goid       uint64
	exit       bool
}

type resume struct {
	val   any
	abort bool
}

type abortSentinel struct{}

// Scheduling strategies.
const (
	stratUniform = iota
	stratSticky
	stratPCT
	numStrats
)

// Kernel is the scheduler of one simulated run.  All its fields are touched
// only by the scheduler goroutine (the goroutine that calls Run), except for
// notes, which is the task → scheduler channel.
type Kernel struct {
	Tape *Tape

	notes chan *note
	token [8]byte

	tasks  []*Task
	byGoid map[uint64]*Task

	schedGoid uint64

	// MaxSteps bounds the number of scheduling decisions.
	MaxSteps int
	Steps    int

	// Log is the event log; LogHash is its running hash.
	Log     []string
	LogHash uint64
	KeepLog bool

	// SchedSig is the hash of the (task, site) sequence at decisions with at
	// least two enabled entries; Branching counts such decisions.
	SchedSig  uint64
	Branching int

	strategy int
	aux      *Rand
	prio     []int
	changeAt []int
	lastRun  *Task

	aborting bool

	pool *PoolSim

	// progress counts scheduler iterations; the worker's stall detector reads
	// it from outside the bubble (norace accessors).
	progress uint64

	// stallToken orders the scheduler's state before the stall detector's
	// reads of it for the race detector (released before every wait for
	// quiescence, acquired by the detector).
	stallToken [8]byte

	// OnStall, if set, is asked for a verdict when the run has stalled: some
	// goroutine of the bubble is blocked on a mutex (which the bubble does not
	// count as durably blocked) while nothing can run, typically because the
	// holder of the mutex is parked at a yield.  Whether that is a defect of
	// the code under test (a Get of another key waiting for a global lock) or
	// merely a design whose waiters queue on a mutex (sync.Once) is for the
	// workload to say; nil means "no verdict" and the run is inconclusive.
	// It runs outside the bubble while every goroutine of the bubble is
	// blocked and may read scheduler-side state.
	OnStall func(info *StallInfo) *Violation

	// MuteAuto makes the yields inserted by tools/autoyield (sites "auto:…")
	// no-ops for this run.
	MuteAuto bool

	// knownMu are the mutexes seen at hand-placed lock hooks.  An inserted
	// yield is skipped while any of them is locked: a task must never park
	// inside a critical section of the code under test, because a Lock() that
	// has no hand-placed hook in front of it would then block in a way the
	// bubble cannot see.  Written and read by task goroutines in norace
	// functions; tasks run one at a time.
	knownMu  [8]*sync.Mutex
	nKnownMu int

	// AfterDrain, if set, is called on the scheduler goroutine after the
	// notes of a step have been processed (end-of-step invariants).
	AfterDrain func()

	// Exclusive, if set, restricts scheduling to that task while it is
	// parked (used to keep the simulator from constructing a select with two
	// ready cases).
	Exclusive *Task

	// Violation is the first violation reported in this run.
	Violation *Violation

	// Inconclusive is set if the run had to be cut (step budget).
	Inconclusive string

	// HarnessErr is set on an internal error of the harness.
	HarnessErr string
}

// currentK is the kernel of the run in progress.  It is written by the
// scheduler goroutine only while every task is parked or not yet started, and
// read by hooks on task goroutines; the accessors are norace so that this
// process-wide word creates no happens-before edge between tasks.
var currentK *Kernel

//go:norace
func loadCurrent() *Kernel { return currentK }

//go:norace
func storeCurrent(k *Kernel) { currentK = k }

// Current returns the kernel of the run in progress, or nil.
func Current() *Kernel { return loadCurrent() }

// NewKernel creates the kernel for one run.  It must be called on the
// goroutine that will call Run (the bubble's root goroutine).
func NewKernel(tape *Tape) *Kernel {
	k := &Kernel{
		Tape:     tape,
		notes:    make(chan *note, 4096),
		byGoid:   map[uint64]*Task{},
		MaxSteps: 5000,
		LogHash:  fnvOffset,
		SchedSig: fnvOffset,
	}
	k.schedGoid = goid()
	k.strategy = tape.Choose(numStrats)
	if !tape.Replaying() {
		k.aux = NewRand(tape.rng.Uint64())
		if k.strategy == stratPCT {
			d := 1 + k.aux.Intn(3)
			for i := 0; i < d; i++ {
				k.changeAt = append(k.changeAt, k.aux.Intn(60))
			}
		}
	}

	return k
}

const (
	fnvOffset = 14695981039346656037
	fnvPrime  = 1099511628211
)

func hashStr(h uint64, s string) uint64 {
	for i := 0; i < len(s); i++ {
		h ^= uint64(s[i])
		h *= fnvPrime
	}
	h ^= 0xff
	h *= fnvPrime

	return h
}

// Logf appends an event to the log.  Scheduler goroutine only.
func (k *Kernel) Logf(parts ...string) {
	h := k.LogHash
	for _, p := range parts {
		h = hashStr(h, p)
	}
	k.LogHash = h
	if k.KeepLog {
		s := ""
		for _, p := range parts {
			s += p
		}
		k.Log = append(k.Log, s)
	}
}

// Itoa is strconv.Itoa (no fmt on the scheduler goroutine).
func Itoa(i int) string { return strconv.Itoa(i) }

// Fail records a violation.  Scheduler goroutine only (from Pred/Act/Post
// closures or between Run calls); tasks use Report.
func (k *Kernel) Fail(class, site, msg string) {
	if k.aborting {
		// The run is over and its tasks are being torn down (each one ends
		// with runtime.Goexit at its yield): what they report on the way out
		// says nothing about the code under test.
		return
	}
	if k.Violation == nil {
		k.Violation = &Violation{Class: class, Site: site, Msg: msg}
		k.Logf("VIOLATION ", class, "@", site)
	}
}

// Failed reports whether a violation has been recorded.  Scheduler only.
func (k *Kernel) Failed() bool { return k.Violation != nil }

// Go starts a task.  It must be called on the scheduler goroutine, normally
// before Run (tasks started later inherit the scheduler's happens-before
// knowledge, which would blunt the race oracle).
func (k *Kernel) Go(name string, daemon bool, f func()) *Task {
	t := &Task{Name: name, Idx: len(k.tasks), Daemon: daemon}
	k.tasks = append(k.tasks, t)
	go k.taskMain(t, f)

	return t
}

func (k *Kernel) taskMain(t *Task, f func()) {
	n := &note{exit: true, task: t}
	defer func() {
		if v := recover(); v != nil {
			n.panicVal = v
			n.panicStack = string(debug.Stack())
		}
		n.goid = goid()
		raceReleaseMerge(unsafe.Pointer(&k.token))
		raceDisable()
		k.notes <- n
		raceEnable()
	}()

	k.park(&note{task: t, o: Opts{Site: "start"}})
	f()
}

// park posts the note and blocks until the scheduler resumes the task.
func (k *Kernel) park(n *note) any {
	n.goid = goid()
	if n.goid == k.schedGoid {
		// The scheduler itself reached a yield point (sequential phases).
		if n.o.Post != nil {
			n.o.Post()
		}
		if n.o.Act != nil {
			return n.o.Act()
		}

		return nil
	}

	n.reply = make(chan resume, 1)
	raceReleaseMerge(unsafe.Pointer(&k.token))
	raceDisable()
	k.notes <- n
	r := <-n.reply
	raceEnable()
	if r.abort {
		// End of the run: terminate this goroutine.  Goexit runs the deferred
		// calls (unlocking mutexes, posting the exit note) but is not a panic,
		// so neither a recover in the code under test can swallow it nor can
		// it crash the process in a goroutine that has no recover (goroutines
		// started by the code under test).
		runtime.Goexit()
	}

	return r.val
}

// Yield parks the calling task at the named site.
func (k *Kernel) Yield(site string) { k.park(&note{o: Opts{Site: site}}) }

// YieldOpts parks the calling task and returns Act's result.
func (k *Kernel) YieldOpts(o Opts) any { return k.park(&note{o: o}) }

// Ask parks the calling task; act is evaluated by the scheduler when the task
// is picked and its result returned.
func (k *Kernel) Ask(site string, act func() any) any {
	return k.park(&note{o: Opts{Site: site, Act: act}})
}

// Tell parks the calling task; post is evaluated by the scheduler as soon as
// it sees the note (end of the current step).
func (k *Kernel) Tell(site string, post func()) {
	k.park(&note{o: Opts{Site: site, Post: post}})
}

// Report records a violation from a task goroutine.
func (k *Kernel) Report(class, site, msg string) {
	k.park(&note{o: Opts{Site: "report", Post: func() { k.Fail(class, site, msg) }}})
}

// HookPoint is the function installed into the guarded hooks of the code
// under test.  Outside a run it does nothing.
func HookPoint(site string, mu *sync.Mutex) {
	k := loadCurrent()
	if k == nil {
		return
	}
	if len(site) > 5 && site[:5] == "auto:" {
		if k.MuteAuto || k.anyKnownMutexLocked() {
			return
		}
	} else if mu != nil {
		k.rememberMutex(mu)
	}
	k.park(&note{o: Opts{Site: site, Mu: mu}})
}

// HookSite is HookPoint for hooks without a mutex.
func HookSite(site string) { HookPoint(site, nil) }

//go:norace
func (k *Kernel) rememberMutex(mu *sync.Mutex) {
	for i := 0; i < k.nKnownMu; i++ {
		if k.knownMu[i] == mu {
			return
		}
	}
	if k.nKnownMu < len(k.knownMu) {
		k.knownMu[k.nKnownMu] = mu
		k.nKnownMu++
	}
}

//go:norace
func (k *Kernel) anyKnownMutexLocked() bool {
	for i := 0; i < k.nKnownMu; i++ {
		if *(*int32)(unsafe.Pointer(k.knownMu[i]))&1 != 0 {
			return true
		}
	}

	return false
}

// mutexLocked peeks at the locked bit of a sync.Mutex.  The load is a plain
// one in an uninstrumented function on purpose: sync/atomic operations are
// synchronisation in the eyes of the race detector, so an atomic peek would
// order the peeking goroutine after the last goroutine that unlocked the
// mutex (hiding races) and would itself be reported against the plain
// initialisation of a mutex that another task has just allocated.  An aligned
// 32-bit load is atomic on the platforms this runs on, and only one task runs
// at a time.
//
//go:norace
func mutexLocked(mu *sync.Mutex) bool {
	return *(*int32)(unsafe.Pointer(mu))&1 != 0
}

// CheckMutexLayout verifies the assumption behind mutexLocked.
func CheckMutexLayout() bool {
	var mu sync.Mutex
	if mutexLocked(&mu) {
		return false
	}
	mu.Lock()
	l := mutexLocked(&mu)
	mu.Unlock()

	return l && !mutexLocked(&mu)
}

func goid() uint64 {
	var buf [40]byte
	n := runtime.Stack(buf[:], false)
	// "goroutine 123 ["
	var id uint64
	for i := len("goroutine "); i < n; i++ {
		c := buf[i]
		if c < '0' || c > '9' {
			break
		}
		id = id*10 + uint64(c-'0')
	}

	return id
}

// drain receives all posted notes and updates task states.  Notes of one step
// are processed in a fixed order (by task index).
func (k *Kernel) drain() {
	var got []*note
	raceDisable()
	for {
		select {
		case n := <-k.notes:
			got = append(got, n)

			continue
		default:
		}

		break
	}
	raceEnable()
	if len(got) == 0 {
		return
	}
	raceAcquire(unsafe.Pointer(&k.token))

	// Resolve tasks.
	var fresh []*note
	for _, n := range got {
		if n.task == nil {
			n.task = k.byGoid[n.goid]
		}
		if n.task == nil {
			fresh = append(fresh, n)
		}
	}
	slices.SortStableFunc(fresh, func(a, b *note) int { return cmp.Compare(a.goid, b.goid) })
	for _, n := range fresh {
		t := &Task{
			Name:    "dyn" + Itoa(len(k.tasks)),
			Idx:     len(k.tasks),
			Dynamic: true,
			Daemon:  true,
			goid:    n.goid,
		}
		k.tasks = append(k.tasks, t)
		k.byGoid[n.goid] = t
		n.task = t
		k.Logf("adopt ", t.Name, " at ", n.o.Site)
	}

	slices.SortStableFunc(got, func(a, b *note) int { return cmp.Compare(a.task.Idx, b.task.Idx) })
	for _, n := range got {
		t := n.task
		if t.goid == 0 {
			t.goid = n.goid
			k.byGoid[n.goid] = t
		}
		if t.state == stParked {
			k.HarnessErr = "task " + t.Name + " posted a note while parked"
		}
		if n.exit {
			t.state = stExited
			t.note = nil
			delete(k.byGoid, t.goid)
			if n.panicVal != nil {
				t.PanicVal = n.panicVal
				t.PanicStack = n.panicStack
			}
			k.Logf("exit ", t.Name)

			continue
		}
		t.state = stParked
		t.note = n
		if n.o.Post != nil && !k.aborting {
			n.o.Post()
		}
	}
}

func (k *Kernel) enabled() (en []*Task) {
	if x := k.Exclusive; x != nil && x.state == stParked {
		n := x.note
		if (n.o.Mu == nil || !mutexLocked(n.o.Mu)) && (n.o.Pred == nil || n.o.Pred()) {
			return []*Task{x}
		}
	}
	for _, t := range k.tasks {
		if t.state != stParked {
			continue
		}
		n := t.note
		if n.o.Mu != nil && mutexLocked(n.o.Mu) {
			continue
		}
		if n.o.Pred != nil && !n.o.Pred() {
			continue
		}
		en = append(en, t)
	}

	return en
}

func (k *Kernel) pick(en []*Task) *Task {
	n := len(en)
	if n == 1 {
		return en[0]
	}

	i := k.Tape.ChooseF(n, func(r *Rand) int {
		switch k.strategy {
		case stratSticky:
			if k.lastRun != nil && r.Intn(4) != 0 {
				for i, t := range en {
					if t == k.lastRun {
						return i
					}
				}
			}

			return r.Intn(n)
		case stratPCT:
			for len(k.prio) < len(k.tasks) {
				k.prio = append(k.prio, 1000+k.aux.Intn(1000))
			}
			best := 0
			for i, t := range en {
				if k.prio[t.Idx] > k.prio[en[best].Idx] {
					best = i
				}
			}
			for _, c := range k.changeAt {
				if c == k.Branching {
					k.prio[en[best].Idx] = k.aux.Intn(1000)
				}
			}

			return best
		default:
			return r.Intn(n)
		}
	})

	t := en[i]
	k.Branching++
	k.SchedSig = hashStr(hashStr(k.SchedSig, t.Name), t.note.o.Site)

	return t
}

func (k *Kernel) resume(t *Task, abort bool) {
	n := t.note
	var val any
	if !abort && n.o.Act != nil {
		val = n.o.Act()
	}
	t.state = stRunning
	t.note = nil
	raceDisable()
	n.reply <- resume{val: val, abort: abort}
	raceEnable()
}

// StallInfo describes a stalled run to OnStall.
type StallInfo struct {
	// MutexBlocked and Parked are the goroutine ids of the bubble's
	// goroutines that are blocked on a mutex (or another non-durable wait)
	// and parked at a yield point, respectively.
	MutexBlocked []uint64
	Parked       []uint64
	Dump         string
}

// TaskOfGoid maps a goroutine id to its task (scheduler-side state; for
// OnStall).
func (k *Kernel) TaskOfGoid(id uint64) *Task { return k.byGoid[id] }

//go:norace
func (k *Kernel) tick() { k.progress++ }

// Progress returns the number of scheduler iterations so far.
//
//go:norace
func (k *Kernel) Progress() uint64 { return k.progress }

// Run drives the simulation until nothing is runnable.  It returns with all
// tasks either exited, parked-but-disabled, or blocked inside the code under
// test; Finish must be called afterwards.
func (k *Kernel) Run() {
	storeCurrent(k)
	for {
		k.tick()
		raceReleaseMerge(unsafe.Pointer(&k.stallToken))
		synctest.Wait()
		k.drain()
		if k.AfterDrain != nil && k.Violation == nil && k.HarnessErr == "" {
			k.AfterDrain()
		}
		if k.HarnessErr != "" {
			return
		}
		if k.Violation != nil {
			return
		}
		en := k.enabled()
		if len(en) == 0 {
			return
		}
		if k.allUserDone() && !k.anyNonDaemon(en) {
			// Only daemons are left and every user task is done.
			return
		}
		if k.Steps >= k.MaxSteps {
			k.Inconclusive = "step budget exhausted"

			return
		}
		t := k.pick(en)
		k.Steps++
		k.lastRun = t
		k.Logf(t.Name, " ", t.note.o.Site)
		k.resume(t, false)
	}
}

func (k *Kernel) allUserDone() bool {
	for _, t := range k.tasks {
		if !t.Daemon && t.state != stExited {
			return false
		}
	}

	return true
}

func (k *Kernel) anyNonDaemon(en []*Task) bool {
	for _, t := range en {
		if !t.Daemon {
			return true
		}
	}

	return false
}

// Parked returns the tasks that are parked at a yield point (after Run: those
// that were never enabled again), Blocked the non-exited tasks that are not
// parked, i.e. blocked inside the code under test (for dynamic tasks: blocked
// or gone).
func (k *Kernel) Parked() (ts []*Task) {
	for _, t := range k.tasks {
		if t.state == stParked {
			ts = append(ts, t)
		}
	}

	return ts
}

// ParkedSite returns the site a parked task is parked at.
func (t *Task) ParkedSite() string {
	if t.note == nil {
		return ""
	}

	return t.note.o.Site
}

// Blocked: see Parked.
func (k *Kernel) Blocked() (ts []*Task) {
	for _, t := range k.tasks {
		if t.state == stRunning {
			ts = append(ts, t)
		}
	}

	return ts
}

// IsBlocked reports whether the task is neither parked nor exited, i.e. (at
// quiescence) blocked inside the code under test.
func (t *Task) IsBlocked() bool { return t.state == stRunning }

// IsLockWaiting reports whether the task is parked in front of a simulated
// mutex or Once that is taken (simsync.go): for the code under test that is
// what being blocked in Lock is.  Scheduler-side.
func (t *Task) IsLockWaiting() bool {
	if t.state != stParked || t.note == nil || t.note.o.Pred == nil {
		return false
	}
	switch t.note.o.Site {
	case "mutex.Lock", "mutex.RLock", "once.Do":
		return !t.note.o.Pred()
	}

	return false
}

// IsParked reports whether the task is parked at a yield point.
func (t *Task) IsParked() bool { return t.state == stParked }

// Tasks returns all tasks.
func (k *Kernel) Tasks() []*Task { return k.tasks }

// Exited reports whether the task's goroutine has finished.
func (t *Task) Exited() bool { return t.state == stExited }

// Finish tears the run down: every parked task is resumed with an abort
// (its yield ends the goroutine with runtime.Goexit, running its deferred
// calls) until no task is parked any more.  Tasks blocked inside the code under test are left
// behind; the bubble runner deals with them.  After Finish the hooks are
// no-ops again.
func (k *Kernel) Finish() {
	k.aborting = true
	for i := 0; i < 10000; i++ {
		k.tick()
		raceReleaseMerge(unsafe.Pointer(&k.stallToken))
		synctest.Wait()
		k.drain()
		ps := k.Parked()
		if len(ps) == 0 {
			break
		}
		for _, t := range ps {
			k.resume(t, true)
		}
	}
	storeCurrent(nil)

	// A task function that panicked with something other than the abort
	// sentinel escaped the workload's own recovery: report it.
	for _, t := range k.tasks {
		if t.PanicVal != nil && k.Violation == nil && k.HarnessErr == "" {
			k.HarnessErr = "task " + t.Name + " panicked: " + panicString(t.PanicVal) + "\n" + t.PanicStack
		}
	}
}

func panicString(v any) string {
	switch x := v.(type) {
	case error:
		return x.Error()
	case string:
		return x
	default:
		return "non-string panic value"
	}
}

// PanicSite returns the top-most function of the code under test in a stack
// trace taken in a deferred function while panicking, or "" if there is none.
func PanicSite(stack string) string {
	const prefix = "github.com/AdguardTeam/golibs/"
	lines := splitLines(stack)
	seenPanic := false
	for _, l := range lines {
		if len(l) >= 6 && l[:6] == "panic(" {
			seenPanic = true

			continue
		}
		if !seenPanic {
			continue
		}
		if len(l) > len(prefix) && l[:len(prefix)] == prefix {
			fn := l[len(prefix):]
			for i := len(fn) - 1; i > 0; i-- {
				if fn[i] == '(' {
					fn = fn[:i]

					break
				}
			}

			return fn
		}
	}

	return ""
}

func splitLines(s string) (lines []string) {
	start := 0
	for i := 0; i < len(s); i++ {
		if s[i] == '\n' {
			lines = append(lines, s[start:i])
			start = i + 1
		}
	}
	if start < len(s) {
		lines = append(lines, s[start:])
	}

	return lines
}

// IsAbort reports whether a recovered panic value is the scheduler's abort
// signal.  Tasks are now ended with runtime.Goexit, which no recover sees, so
// this is always false; it is kept for the workloads' recover helpers.
func IsAbort(v any) bool {
	_, ok := v.(abortSentinel)

	return ok
}

// LastRun returns the task that was resumed in the current step.
func (k *Kernel) LastRun() *Task { return k.lastRun }
