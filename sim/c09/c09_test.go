// Package c09 decides property C09: the cache is a size- and count-bounded
// LRU map for every configuration and history, including calls made from
// inside the OnDelete callback.  One task; the schedule dimension is the
// OnDelete seam (the cache calls back with its lock released and the tape
// decides which nested calls the callback makes).  Oracle: an executable
// reference model stepped operation by operation.
package c09

import (
	"bytes"
	"fmt"
	"runtime/debug"
	"strings"
	"testing"

	"github.com/AdguardTeam/golibs/cache"

	"verif/sim/kernel"
)

const (
	opSet = iota
	opGet
	opDel
	opClear
	opStats
)

var opNames = [...]string{"Set", "Get", "Del", "Clear", "Stats"}

// opRec is one executed operation with everything that was observed.
type opRec struct {
	kind  int
	key   []byte
	val   []byte
	ret   bool
	got   []byte
	stats cache.Stats
	cbs   []*cbRec
}

// cbRec is one OnDelete invocation observed during a Set, with the nested
// operations the callback performed.
type cbRec struct {
	key    []byte
	val    []byte
	nested []*opRec
}

// Reference model.

type entry struct {
	key string
	val string
}

type state struct {
	entries []entry // front = least recently used (LRU) or oldest
	hit     int
	miss    int
}

func (s *state) clone() *state {
	return &state{entries: append([]entry(nil), s.entries...), hit: s.hit, miss: s.miss}
}

func (s *state) size() (n int) {
	for _, e := range s.entries {
		n += len(e.key) + len(e.val)
	}

	return n
}

func (s *state) find(k string) int {
	for i, e := range s.entries {
		if e.key == k {
			return i
		}
	}

	return -1
}

func (s *state) remove(i int) { s.entries = append(s.entries[:i:i], s.entries[i+1:]...) }

func (s *state) String() string {
	var b strings.Builder
	fmt.Fprintf(&b, "hit=%d miss=%d [", s.hit, s.miss)
	for _, e := range s.entries {
		fmt.Fprintf(&b, " %q=%q", e.key, e.val)
	}
	b.WriteString(" ]")

	return b.String()
}

type model struct {
	maxSize   int // 0 = unlimited
	maxCount  int // 0 = unlimited
	maxElem   int // 0 = unlimited
	lru       bool
	callbacks bool
}

func newModel(c cache.Config) *model {
	m := &model{
		maxSize:   int(c.MaxSize),
		maxCount:  int(c.MaxCount),
		maxElem:   int(c.MaxElementSize),
		lru:       c.EnableLRU,
		callbacks: c.OnDelete != nil,
	}
	// "Max. element size.  Default: =MaxSize"; an element can never be larger
	// than the whole cache.
	if m.maxElem == 0 || (m.maxSize != 0 && m.maxElem > m.maxSize) {
		m.maxElem = m.maxSize
	}

	return m
}

// needsRoom says whether an entry of size add cannot be added to st as it is.
func (m *model) needsRoom(st *state, add int) bool {
	return (m.maxSize != 0 && st.size()+add > m.maxSize) ||
		(m.maxCount != 0 && len(st.entries) >= m.maxCount)
}

// apply returns the candidate successor states of st that are consistent
// with the observed operation.  More than one candidate exists only where the
// statement leaves room: whether a replacing Set needs room before (reading
// A) or after (reading B) discounting the entry it replaces.
func (m *model) apply(st *state, r *opRec) []*state {
	switch r.kind {
	case opSet:
		return m.applySet(st, r)
	case opGet:
		st = st.clone()
		i := st.find(string(r.key))
		if i < 0 {
			if r.got != nil {
				return nil
			}
			st.miss++

			return []*state{st}
		}
		e := st.entries[i]
		if r.got == nil && e.val != "" || string(r.got) != e.val {
			return nil
		}
		st.hit++
		if m.lru {
			st.remove(i)
			st.entries = append(st.entries, e)
		}

		return []*state{st}
	case opDel:
		st = st.clone()
		if i := st.find(string(r.key)); i >= 0 {
			st.remove(i)
		}

		return []*state{st}
	case opClear:
		// "Hit/Miss count Gets exactly": since creation or since the last
		// Clear is left open by the statement (the interface comment says
		// Clear clears statistics): both readings are kept.
		if st.hit == 0 && st.miss == 0 {
			return []*state{{}}
		}

		return []*state{{}, {hit: st.hit, miss: st.miss}}
	case opStats:
		if r.stats.Count != len(st.entries) || r.stats.Size != st.size() ||
			r.stats.Hit != st.hit || r.stats.Miss != st.miss {
			return nil
		}

		return []*state{st}
	}

	panic("bad op kind")
}

func (m *model) applySeq(sts []*state, ops []*opRec) []*state {
	for _, r := range ops {
		var next []*state
		for _, st := range sts {
			next = append(next, m.apply(st, r)...)
		}
		sts = dedupe(next)
		if len(sts) == 0 {
			return nil
		}
	}

	return sts
}

func dedupe(sts []*state) []*state {
	if len(sts) < 2 {
		return sts
	}
	seen := map[string]bool{}
	var out []*state
	for _, s := range sts {
		k := s.String()
		if !seen[k] {
			seen[k] = true
			out = append(out, s)
		}
	}

	return out
}

func (m *model) applySet(st *state, r *opRec) []*state {
	k, v := string(r.key), string(r.val)
	add := len(k) + len(v)
	if m.maxElem != 0 && add > m.maxElem {
		// Too large for any state of the cache: refused, nothing changes.
		if r.ret || len(r.cbs) != 0 {
			return nil
		}

		return []*state{st}
	}

	var out []*state
	// Reading A: room is needed for the new entry as such.
	out = append(out, m.continueSet(st.clone(), k, v, r, 0, false)...)
	// Reading B: the entry being replaced is discounted first.
	if i := st.find(k); i >= 0 {
		b := st.clone()
		b.remove(i)
		out = append(out, m.continueSet(b, k, v, r, 0, true)...)
	}

	return dedupe(out)
}

// continueSet continues a Set on st: evict while room is needed (replaying
// the recorded callbacks and their nested operations), then insert.
func (m *model) continueSet(st *state, k, v string, r *opRec, cbIdx int, discounted bool) []*state {
	add := len(k) + len(v)
	if m.needsRoom(st, add) {
		if !m.lru {
			// Does not fit: refused, nothing changes.  (Under reading B the
			// discounted entry has to be put back: simply use the original.)
			if r.ret || len(r.cbs) != 0 || discounted {
				return nil
			}

			return []*state{st}
		}
		if len(st.entries) == 0 {
			return nil
		}
		e := st.entries[0]
		st.remove(0)
		if !m.callbacks {
			return m.continueSet(st, k, v, r, cbIdx, discounted)
		}
		if cbIdx >= len(r.cbs) {
			return nil
		}
		cb := r.cbs[cbIdx]
		if string(cb.key) != e.key || string(cb.val) != e.val {
			return nil
		}
		var out []*state
		for _, s := range m.applySeq([]*state{st}, cb.nested) {
			out = append(out, m.continueSet(s.clone(), k, v, r, cbIdx+1, discounted)...)
		}

		return out
	}
	if cbIdx != len(r.cbs) {
		return nil
	}
	i := st.find(k)
	replaced := i >= 0 || discounted
	if r.ret != replaced {
		return nil
	}
	if i >= 0 {
		st.remove(i)
	}
	st.entries = append(st.entries, entry{key: k, val: v})

	return []*state{st}
}

// Refused non-LRU Set under reading B with a discounted entry: the candidate
// is simply dropped, because reading A's candidate (which starts from the
// same original state) already covers "refused, nothing changes".

// Workload.

var keyPool = [][]byte{[]byte("a"), []byte("b"), []byte(strings.Repeat("k", 40)), []byte("ab"), []byte(""),
	[]byte(strings.Repeat("q", 33)), []byte("abc"), nil}

type runner struct {
	tp      *kernel.Tape
	c       cache.Cache
	conf    cache.Config
	stats   *kernel.Stats
	nKeys   int
	counter int
	depth   int
	reent   bool
	frames  []*opRec // Sets in progress (innermost last)
	log     []string
	keepLog bool
	nonTriv bool
	sig     uint64
	nOps    int
	long    bool // long history: thousands of operations, mostly Set and Del

	// cur is, per key, the value buffer given to the latest Set of that key.
	// When a later Set of the key reports that it replaced a live entry, the
	// earlier buffer is no longer the cache's and the caller may reuse it: the
	// harness overwrites it (the cache stores the slices it is given, and
	// must hand out the latest one).
	cur    map[string][]byte
	curKey map[string][]byte // the same for the key buffers
	pv     any
	stack  string
}

func TestWorker(t *testing.T) {
	kernel.WorkerMain(t, &kernel.Check{ID: "C09", Run: run})
}

func (r *runner) logf(format string, a ...any) {
	if r.keepLog {
		r.log = append(r.log, strings.Repeat("  ", r.depth)+fmt.Sprintf(format, a...))
	}
}

func (r *runner) genOp() *opRec {
	tp := r.tp
	o := &opRec{key: keyPool[tp.Choose(r.nKeys)]}
	c := tp.Choose(20)
	if r.long && r.depth == 0 {
		// Long histories keep adding and deleting; Clear is rare so that
		// whatever an implementation accumulates over time is not reset.
		switch {
		case c >= 14 && c < 17, c == 17 && !tp.Bool(1, 200), c >= 9 && c < 12:
			c = 14
		}
	}
	switch {
	case c < 9:
		o.kind = opSet
		r.counter++
		n := tp.Choose(9)
		v := []byte(fmt.Sprintf("%d", r.counter))
		if n == 0 {
			// Empty values: nil or empty non-nil (unique values are impossible
			// at length zero; the model compares contents).
			v = nil
			if tp.Bool(1, 2) {
				v = []byte{}
			}
			r.stats.Probe("empty-value")
		} else {
			for len(v) < n {
				v = append(v, '.')
			}
		}
		if old := r.cur[string(o.key)]; len(old) > 0 && tp.Bool(1, 6) {
			// The same content again, in a buffer of its own.
			v = bytes.Clone(old)
			r.stats.Probe("set-equal-content-again")
		}
		o.val = v
	case c < 14:
		o.kind = opGet
	case c < 17:
		o.kind = opDel
	case c < 18:
		o.kind = opClear
	default:
		o.kind = opStats
	}

	return o
}

// exec performs o on the real cache, recording what is observed.
func (r *runner) exec(o *opRec) {
	r.nOps++
	switch o.kind {
	case opSet:
		r.frames = append(r.frames, o)
		// The cache gets a buffer of its own (nil and empty stay what they
		// are); the record keeps the content for the model and the log.
		buf, kbuf := bytes.Clone(o.val), bytes.Clone(o.key)
		o.ret = r.c.Set(kbuf, buf)
		r.frames = r.frames[:len(r.frames)-1]
		if o.ret {
			// The entry of the earlier Set is gone: its value and key buffers
			// are the caller's again.
			for _, old := range [][]byte{r.cur[string(o.key)], r.curKey[string(o.key)]} {
				for i := range old {
					old[i] = '#'
				}
			}
			r.stats.Probe("replaced-buffer-reused-by-caller")
		}
		r.cur[string(o.key)], r.curKey[string(o.key)] = buf, kbuf
		r.logf("Set(%q, %q) = %v (%d callbacks)", o.key, o.val, o.ret, len(o.cbs))
		if len(o.cbs) > 0 {
			r.stats.Probe("set-with-eviction")
		}
	case opGet:
		// (A copy: Get hands out the stored slice, which the harness may
		// overwrite once the entry has been replaced.)
		o.got = bytes.Clone(r.c.Get(o.key))
		r.logf("Get(%q) = %q nil=%v", o.key, o.got, o.got == nil)
	case opDel:
		r.c.Del(o.key)
		r.logf("Del(%q)", o.key)
	case opClear:
		r.c.Clear()
		r.logf("Clear()")
	case opStats:
		o.stats = r.c.Stats()
		r.logf("Stats() = %+v", o.stats)
	}
	r.sig = kernel.HashBytes(r.sig, []byte{byte(o.kind), boolByte(o.ret), byte(len(o.cbs)), byte(r.depth)})
	r.sig = kernel.HashBytes(r.sig, o.key)
	r.sig = kernel.HashBytes(r.sig, o.got)
}

func boolByte(b bool) byte {
	if b {
		return 1
	}

	return 0
}

// onDelete is the OnDelete callback given to the real cache.
func (r *runner) onDelete(key, val []byte) {
	if len(r.frames) == 0 {
		panic("harness: OnDelete outside Set")
	}
	top := r.frames[len(r.frames)-1]
	cb := &cbRec{key: bytes.Clone(key), val: bytes.Clone(val)}
	top.cbs = append(top.cbs, cb)
	r.nonTriv = true
	r.stats.Probe("ondelete")
	r.logf("OnDelete(%q, %q)", key, val)
	if !r.reent || r.depth >= 2 || r.nOps > 200 {
		return
	}
	n := r.tp.Choose(4)
	if n == 0 {
		return
	}
	r.depth++
	r.stats.Probe(fmt.Sprintf("reentrant-depth%d", r.depth))
	for i := 0; i < n; i++ {
		o := r.genOp()
		r.stats.Probe("reentrant-" + opNames[o.kind])
		r.exec(o)
		cb.nested = append(cb.nested, o)
	}
	r.depth--
}

func run(rc *kernel.RunCtx) {
	tp := rc.Tape
	r := &runner{tp: tp, stats: rc.Stats, keepLog: rc.KeepLog, sig: 14695981039346656037, cur: map[string][]byte{}, curKey: map[string][]byte{}}

	conf := cache.Config{}
	if tp.Bool(3, 4) {
		conf.MaxSize = uint(tp.Range(4, 24))
		if tp.Bool(1, 8) {
			// Tiny byte limits: the entries that fit are the empty one and
			// those of a byte or two.
			conf.MaxSize = uint(tp.Range(1, 3))
		}
	}
	switch tp.Choose(4) {
	case 1:
		conf.MaxElementSize = uint(tp.Range(1, 10))
	case 2:
		conf.MaxElementSize = conf.MaxSize + uint(tp.Range(1, 5))
	}
	if tp.Bool(2, 3) {
		conf.MaxCount = uint(tp.Range(1, 3))
	}
	conf.EnableLRU = tp.Bool(2, 3)
	switch tp.Choose(3) {
	case 1:
		conf.OnDelete = r.onDelete
	case 2:
		conf.OnDelete = r.onDelete
		r.reent = true
	}
	r.conf = conf
	r.nKeys = tp.Range(1, len(keyPool))
	nOps := tp.Range(1, 40)
	if r.long = tp.Bool(1, 1000); r.long {
		nOps = tp.Range(1500, 9000)
		rc.Stats.Probe("long-history")
	}
	r.logf("config MaxSize=%d MaxElementSize=%d MaxCount=%d LRU=%v OnDelete=%v reentrant=%v keys=%d ops=%d",
		conf.MaxSize, conf.MaxElementSize, conf.MaxCount, conf.EnableLRU, conf.OnDelete != nil, r.reent, r.nKeys, nOps)
	r.sig = kernel.HashBytes(r.sig, []byte(fmt.Sprint(conf.MaxSize, conf.MaxElementSize, conf.MaxCount, conf.EnableLRU, conf.OnDelete != nil, r.reent)))

	m := newModel(conf)
	cands := []*state{{}}
	r.c = cache.New(conf)

	for i := 0; i < nOps; i++ {
		o := r.genOp()
		if !r.safeExec(o) {
			rc.Log = r.log
			rc.Fail("panic", kernel.PanicSite(r.stack),
				fmt.Sprintf("%s(%q, %q) panicked: %v\nconfig %+v\n%s", opNames[o.kind], o.key, o.val, r.pv, confStr(conf), r.stack))

			return
		}
		before := cands
		cands = m.applySeq(cands, []*opRec{o})
		if len(cands) == 0 {
			rc.Log = r.log
			rc.Fail("model-mismatch", opNames[o.kind], r.mismatch(o, before, conf))

			return
		}
		if len(cands) > 1 {
			r.stats.Probe("two-readings-alive")
		}
		if o.kind == opSet && !o.ret {
			// Either added or refused.
			r.nonTriv = true
		}
		if o.kind == opSet && o.ret {
			r.nonTriv = true
			r.stats.Probe("replace")
		}

		// Stats after every top-level operation.
		s := &opRec{kind: opStats}
		if !r.safeExec(s) {
			rc.Log = r.log
			rc.Fail("panic", kernel.PanicSite(r.stack), fmt.Sprintf("Stats panicked: %v\n%s", r.pv, r.stack))

			return
		}
		before = cands
		cands = m.applySeq(cands, []*opRec{s})
		if len(cands) == 0 {
			rc.Log = r.log
			rc.Fail("model-mismatch", "Stats-after-"+opNames[o.kind], r.mismatch(s, before, conf))

			return
		}
		if (conf.MaxCount != 0 && uint(s.stats.Count) > conf.MaxCount) ||
			(conf.MaxSize != 0 && uint(s.stats.Size) > conf.MaxSize) {
			rc.Log = r.log
			rc.Fail("bound", "Stats", fmt.Sprintf("Stats %+v exceeds the limits of %s", s.stats, confStr(conf)))

			return
		}
		if o.kind == opSet && !o.ret && len(o.cbs) == 0 && len(before) > 0 &&
			len(before[0].entries) == len(cands[0].entries) && before[0].find(string(o.key)) < 0 {
			r.stats.Probe("refused")
		}
	}

	rc.Log = r.log
	rc.LogHash = r.sig
	rc.Sig = r.sig
	rc.NonTrivial = r.nonTriv
	rc.Steps = int64(r.nOps)
}

func (r *runner) safeExec(o *opRec) (ok bool) {
	defer func() {
		if v := recover(); v != nil {
			r.pv = v
			r.stack = string(debug.Stack())
			ok = false
		}
	}()
	r.exec(o)

	return true
}

func confStr(c cache.Config) string {
	return fmt.Sprintf("{MaxSize:%d MaxElementSize:%d MaxCount:%d EnableLRU:%v OnDelete:%v}",
		c.MaxSize, c.MaxElementSize, c.MaxCount, c.EnableLRU, c.OnDelete != nil)
}

func describeOp(o *opRec, indent string) string {
	var b strings.Builder
	switch o.kind {
	case opSet:
		fmt.Fprintf(&b, "%sSet(%q, %q) = %v\n", indent, o.key, o.val, o.ret)
		for _, cb := range o.cbs {
			fmt.Fprintf(&b, "%s  OnDelete(%q, %q)\n", indent, cb.key, cb.val)
			for _, n := range cb.nested {
				b.WriteString(describeOp(n, indent+"    "))
			}
		}
	case opGet:
		fmt.Fprintf(&b, "%sGet(%q) = %q (nil=%v)\n", indent, o.key, o.got, o.got == nil)
	case opDel:
		fmt.Fprintf(&b, "%sDel(%q)\n", indent, o.key)
	case opClear:
		fmt.Fprintf(&b, "%sClear()\n", indent)
	case opStats:
		fmt.Fprintf(&b, "%sStats() = %+v\n", indent, o.stats)
	}

	return b.String()
}

func (r *runner) mismatch(o *opRec, before []*state, conf cache.Config) string {
	var b strings.Builder
	fmt.Fprintf(&b, "observed behaviour matches no reading of the reference model.\nconfig %s\noperation:\n%s",
		confStr(conf), describeOp(o, "  "))
	b.WriteString("model state(s) before the operation (least recently used first):\n")
	for _, s := range before {
		fmt.Fprintf(&b, "  %s\n", s)
	}

	return b.String()
}
