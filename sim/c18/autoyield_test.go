//go:build autoyield

package c18

import (
	"github.com/AdguardTeam/golibs/service"

	"verif/sim/kernel"
)

// With the autoyield overlay the service package has a SimHook (added by the
// overlay, not by the repository) and a yield before every statement of
// signal.go and refreshworker.go.
func init() {
	overlayHooks = func() {
		service.SimHook = kernel.HookSite
	}
}
