#!/usr/bin/env python3
"""Driver for the deterministic-simulation checks of AdguardTeam/golibs.

  run.py <ID> [--tier quick|thorough] [--runs N] [--workers W] [--replay FILE]

Builds the property's test binary from the current working tree of /repo (or
$VERIF_REPO, used only for scratch copies in the sensitivity self-test), fans
out worker processes that each explore a slice of run indices, merges their
results, writes /verif/evidence/<ID>.json and prints

  VIOLATION property=<ID> replay=<path>      (exit 1)
  KNOWN-FINDING: property=<ID> <what>        (exit 0)

Exit 2 means build trouble, a watchdog or a harness-internal error: never a
verdict about the property.
"""

import argparse
import array
import json
import os
import re
import resource
import shutil
import subprocess
import sys
import tempfile
import time

VERIF = os.path.dirname(os.path.abspath(__file__))
GOLIBS = "github.com/AdguardTeam/golibs"

# Per-check configuration.  runs: simulated runs per tier; race: build with
# the race detector; bubble: concurrent check (GOMAXPROCS=1 per worker).
CHECKS = {
    "C08": dict(pkg="./sim/c08", race=False, quick=600000, thorough=30000000),
    "C09": dict(pkg="./sim/c09", race=False, quick=4000000, thorough=200000000, checkptr=True, aslimit=True),
    "C10": dict(pkg="./sim/c10", race=True, quick=120000, thorough=6000000,
                autoyield=dict(call="simPoint(%q, nil)", files=["cache/data.go"], simsync="cache:cache")),
    "C11": dict(pkg="./sim/c11", race=False, quick=3000000, thorough=150000000),
    "C15": dict(pkg="./sim/c15", race=False, quick=6000000, thorough=200000000),
    "C17": dict(pkg="./sim/c17", race=True, quick=120000, thorough=6000000,
                autoyield=dict(call="simPoint(%q)", files=["syncutil/sema.go", "syncutil/onceconstructor.go"], simsync="syncutil:syncutil")),
    "C18": dict(pkg="./sim/c18", race=True, quick=200000, thorough=8000000,
                autoyield=dict(call="simPoint(%q)", simfile="service:service", simsync="service:service",
                               files=["service/signal.go", "service/refreshworker.go"])),
    "C19": dict(pkg="./sim/c19", race=True, quick=60000, thorough=2400000,
                autoyield=dict(call="simPoint(%q, nil)", files=["logutil/slogutil/jsonhybrid.go"], simsync="logutil/slogutil:slogutil")),
    "C20": dict(pkg="./sim/c20", race=True, quick=40000, thorough=1200000,
                autoyield=dict(call="simPoint(%q)", simfile="netutil/httputil:httputil", simsync="netutil/httputil:httputil",
                               files=["netutil/httputil/logmw.go", "netutil/httputil/httputil.go",
                                      "netutil/httputil/responsewriter.go"])),
}

WALL_CAP = {"quick": 150, "thorough": 3300}


def log(*a):
    print(*a, flush=True)


def go_bin():
    p = shutil.which("go1.26.8")
    if p:
        return p
    p = "/opt/veriftools/go1.26.8/bin/go"
    if os.path.exists(p):
        return p
    log("HARNESS-ERROR: go1.26.8 not found")
    sys.exit(2)


def go_env():
    env = dict(os.environ)
    env.update(GOFLAGS="-mod=mod", GOPROXY="off", GOSUMDB="off", GOTOOLCHAIN="local")
    env.pop("GOMAXPROCS", None)
    return env


def build(check_id, cfg, repo, tmp):
    """Builds the test binary for the check from repo's working tree."""
    ay = cfg.get("autoyield") or {}
    binary = build_once(check_id, cfg, repo, tmp, simsync=bool(ay.get("simsync")))
    if binary is None and ay.get("simsync"):
        # The simulated mutexes are a textual replacement of sync.Mutex,
        # sync.RWMutex and sync.Once in the instrumented files; a tree in which
        # another file of the package uses such a field as the real type does
        # not compile that way.  Fall back to real mutexes (peeked, with the
        # lexical guard and stall detection).
        log("note: the tree does not compile with simulated mutexes; building with the real ones")
        binary = build_once(check_id, cfg, repo, tmp, simsync=False)
        cfg["simsync_used"] = False
    elif ay.get("simsync"):
        cfg["simsync_used"] = True
    return binary


def build_once(check_id, cfg, repo, tmp, simsync):
    tags = "verif"
    if cfg.get("autoyield"):
        tags = "verif,autoyield,simsync" if simsync else "verif,autoyield"
    args = [go_bin(), "test", "-c", "-tags", tags, "-o", os.path.join(tmp, check_id + ".test")]
    if cfg.get("race"):
        args.append("-race")
    if cfg.get("checkptr"):
        args.append("-gcflags=" + GOLIBS + "/...=-d=checkptr")
    # Always build through a generated modfile so that the replace directive
    # points at the requested tree and /verif/go.mod is never rewritten.
    modfile = os.path.join(tmp, "go.mod")
    with open(os.path.join(VERIF, "go.mod")) as f:
        mod = f.read()
    mod = re.sub(r"replace " + re.escape(GOLIBS) + r" => \S+", "replace " + GOLIBS + " => " + repo, mod)
    with open(modfile, "w") as f:
        f.write(mod)
    sums = set()
    for p in (os.path.join(repo, "go.sum"), os.path.join(VERIF, "go.sum")):
        if os.path.exists(p):
            with open(p) as f:
                sums.update(l for l in f.read().splitlines() if l.strip())
    with open(os.path.join(tmp, "go.sum"), "w") as f:
        f.write("\n".join(sorted(sums)) + "\n")
    t0 = time.time()
    if cfg.get("autoyield"):
        # Statement-level yields: instrumented copies of the listed files are
        # compiled instead of the originals through a build overlay.
        ay = cfg["autoyield"]
        files = [os.path.join(repo, f) for f in ay["files"]]
        opts = ["-out", tmp, "-call", ay["call"]]
        if ay.get("simfile"):
            d, pkg = ay["simfile"].split(":")
            opts += ["-simfile", os.path.join(repo, d) + ":" + pkg]
        if simsync:
            # sync.Mutex / sync.RWMutex / sync.Once in the listed files become
            # simulated primitives (scheduler state), see sim/kernel/simsync.go.
            d, pkg = ay["simsync"].split(":")
            opts += ["-simsync", os.path.join(repo, d) + ":" + pkg]
        p = subprocess.run(
            [go_bin(), "run", "-modfile=" + modfile, "./tools/autoyield"] + opts + files,
            cwd=VERIF, env=go_env(), stdout=subprocess.PIPE, stderr=subprocess.PIPE, text=True)
        if p.returncode != 0:
            log("HARNESS-ERROR: autoyield failed:\n" + p.stderr[-3000:])
            return None
        overlay = os.path.join(tmp, "overlay.json")
        with open(overlay, "w") as f:
            f.write(p.stdout)
        args.append("-overlay=" + overlay)
    args += ["-modfile=" + modfile, cfg["pkg"]]
    p = subprocess.run(args, cwd=VERIF, env=go_env(), stdout=subprocess.PIPE, stderr=subprocess.STDOUT, text=True)
    if p.returncode != 0:
        log("%s: build failed (exit %d):\n%s" % ("note" if simsync else "HARNESS-ERROR", p.returncode, p.stdout[-4000:]))
        return None
    log("built %s from %s in %.1fs" % (check_id, repo, time.time() - t0))
    return os.path.join(tmp, check_id + ".test")


def load_known(check_id):
    # VERIF_KNOWN_FILE exists for the self-test of this mechanism only.
    path = os.environ.get("VERIF_KNOWN_FILE") or os.path.join(VERIF, "known_findings.json")
    if not os.path.exists(path):
        return []
    with open(path) as f:
        data = json.load(f)
    return [e for e in data.get("findings", []) if e.get("property") == check_id]


def worker_env(cfg, tmp, name, extra):
    env = dict(os.environ)
    env.update(
        GOMAXPROCS="1",
        GOTRACEBACK="all",
        VERIF_OUT=os.path.join(tmp, name + ".json"),
        VERIF_PROGRESS=os.path.join(tmp, name + ".progress"),
        VERIF_SIGFILE=os.path.join(tmp, name + ".sigs"),
        VERIF_REPLAY_DIR=os.path.join(tmp, "replays"),
    )
    if cfg.get("race"):
        racelog = os.path.join(tmp, name + ".race")
        env["GORACE"] = "halt_on_error=0 suppress_equal_stacks=0 suppress_equal_addresses=0 log_path=" + racelog
        env["VERIF_RACELOG"] = racelog
    env.update(extra)
    return env


def limit_as(cfg):
    if not cfg.get("aslimit"):
        return None

    def f():
        lim = 6 << 30
        resource.setrlimit(resource.RLIMIT_AS, (lim, lim))

    return f


def start_worker(binary, cfg, tmp, name, extra):
    env = worker_env(cfg, tmp, name, extra)
    errf = open(os.path.join(tmp, name + ".stderr"), "w")
    p = subprocess.Popen(
        [binary, "-test.run", "^TestWorker$", "-test.timeout", "0", "-test.count", "1"],
        cwd=tmp, env=env, stdout=errf, stderr=subprocess.STDOUT, preexec_fn=limit_as(cfg),
    )
    return p, errf


def read_result(tmp, name):
    path = os.path.join(tmp, name + ".json")
    if not os.path.exists(path):
        return None
    with open(path) as f:
        return json.load(f)


def tail(path, n=6000):
    try:
        with open(path, errors="replace") as f:
            return f.read()[-n:]
    except OSError:
        return ""


def golibs_frames(text):
    return sorted(set(re.findall(re.escape(GOLIBS) + r"/([\w/]+\.[\w.()*\[\]]+)\(", text)))


def hang_site(text):
    """golibs function of a goroutine that is blocked on a mutex in a hang dump."""
    for block in text.split("\n\n"):
        if "sync.(*Mutex).Lock" in block or "SemacquireMutex" in block or "sync.(*RWMutex)" in block:
            s = crash_site(block)
            if s:
                return s
    return crash_site(text)


def crash_site(text):
    """Top-most golibs function in a fatal stack dump."""
    m = re.search(re.escape(GOLIBS) + r"/([^\s(]+(?:\([^)]*\))?[^\s(]*)\(", text)
    return m.group(1) if m else ""


def run_single(binary, cfg, tmp, name, seed, run, tier, known_sigs):
    """Re-runs one run index in a fresh process; returns (result, returncode, stderr)."""
    extra = dict(
        VERIF_MODE="explore", VERIF_SEED=str(seed), VERIF_FROM=str(run), VERIF_TO=str(run + 1),
        VERIF_STRIDE="1", VERIF_TIER=tier, VERIF_RECHECK="0", VERIF_KNOWN="\n".join(known_sigs),
        VERIF_WATCHDOG_S="30", VERIF_TAPEFILE=os.path.join(tmp, name + ".tape"),
    )
    for suffix in (".json", ".json.hang", ".tape"):
        try:
            os.remove(os.path.join(tmp, name + suffix))
        except OSError:
            pass
    p, errf = start_worker(binary, cfg, tmp, name, extra)
    rc = p.wait()
    errf.close()
    return read_result(tmp, name), rc, tail(os.path.join(tmp, name + ".stderr"), 20000)


def run_range(binary, cfg, tmp, name, seed, frm, to, tier):
    """Re-runs the run indices frm..to-1 in one fresh process (for deaths that
    depend on state the code under test keeps between runs, e.g. a
    package-level pool); returns (died, last run index started, stderr, hang dump)."""
    extra = dict(
        VERIF_MODE="explore", VERIF_SEED=str(seed), VERIF_FROM=str(frm), VERIF_TO=str(to),
        VERIF_STRIDE="1", VERIF_TIER=tier, VERIF_RECHECK="0", VERIF_KNOWN="", VERIF_WATCHDOG_S="30",
        VERIF_NOSHRINK="1",
    )
    for suffix in (".json", ".json.hang", ".progress"):
        try:
            os.remove(os.path.join(tmp, name + suffix))
        except OSError:
            pass
    p, errf = start_worker(binary, cfg, tmp, name, extra)
    rc = p.wait()
    errf.close()
    died = read_result(tmp, name) is None
    m = re.search(r"run=(\d+)", tail(os.path.join(tmp, name + ".progress"), 200))

    return died, (int(m.group(1)) if m else -1), tail(os.path.join(tmp, name + ".stderr"), 30000), \
        tail(os.path.join(tmp, name + ".json.hang"), 200000), rc


def replay_once(binary, cfg, tmp, name, path, tier):
    extra = dict(VERIF_MODE="replay", VERIF_REPLAY=path, VERIF_TIER=tier, VERIF_WATCHDOG_S="30")
    try:
        os.remove(os.path.join(tmp, name + ".json"))
    except OSError:
        pass
    p, errf = start_worker(binary, cfg, tmp, name, extra)
    rc = p.wait()
    errf.close()
    return read_result(tmp, name), rc, tail(os.path.join(tmp, name + ".stderr"), 20000)


def replay_dies(binary, cfg, tmp, path, tier, klass):
    """Replays a tape in a fresh process; returns (died, site of the death)."""
    for suffix in (".json", ".json.hang"):
        try:
            os.remove(os.path.join(tmp, "death" + suffix))
        except OSError:
            pass
    extra = dict(VERIF_MODE="replay", VERIF_REPLAY=path, VERIF_TIER=tier, VERIF_WATCHDOG_S="30")
    p, errf = start_worker(binary, cfg, tmp, "death", extra)
    rc = p.wait()
    errf.close()
    if read_result(tmp, "death") is not None:
        return False, ""
    text = tail(os.path.join(tmp, "death.json.hang"), 200000) or tail(os.path.join(tmp, "death.stderr"), 30000)
    return True, (hang_site(text) if klass == "hang" else crash_site(text))


def shrink_death(binary, cfg, tmp, tape, tier, klass, site, budget):
    """Delta debugging with one fresh process per candidate (the process dies on success)."""
    best = list(tape)
    used = 0
    probe = os.path.join(tmp, "probe-replay.json")

    def dies(cand):
        nonlocal used
        if used >= budget:
            return False
        used += 1
        with open(probe, "w") as f:
            json.dump({"tape": cand, "class": klass, "site": site, "mode": "death"}, f)
        died, s = replay_dies(binary, cfg, tmp, probe, tier, klass)
        return died and s == site

    # shortest prefix (an exhausted tape continues with zeros)
    lo, hi = 0, len(best)
    while lo < hi and used < budget:
        mid = (lo + hi) // 2
        if dies(best[:mid]):
            hi = mid
        else:
            lo = mid + 1
    best = best[:hi]
    size = len(best) // 2
    while size >= 1 and used < budget:
        i = 0
        while i + size <= len(best) and used < budget:
            cand = best[:i] + best[i + size:]
            if dies(cand):
                best = cand
            else:
                i += size
        size //= 2
    for i in range(len(best)):
        if used >= budget:
            break
        if best[i] != 0:
            cand = best[:i] + [0] + best[i + 1:]
            if dies(cand):
                best = cand
    return best, used


def confirm_replay(binary, cfg, tmp, path, tier, want_class, want_site):
    """Replays a replay file in fresh processes.  Returns (confirmed, exact, detail)."""
    with open(path) as f:
        rf = json.load(f)
    if rf.get("mode") == "seed":
        # Older crash/hang replay files carry seed and run instead of a tape.
        res, rc, err = run_single(binary, cfg, tmp, "confirm", rf["seed"], rf["run"], tier, [])
        died = res is None
        return died, died, "process exit %d" % rc
    if rf.get("mode") == "range":
        died, at, err, hang, rc = run_range(binary, cfg, tmp, "confirm", rf["seed"], rf["from"], rf["to"], tier)
        text = hang or err
        site = (hang_site(text) if (rc == 3 or hang) else crash_site(text)) if died else None
        ok = died and site == want_site
        return ok, ok, ("process died at %s during run %d" % (site, at)) if died else "process survived"
    if rf.get("mode") == "death":
        # Crash/hang: the replay is confirmed if the process dies again at the
        # same place of the code under test.
        # Whether corrupted memory kills the process can depend on the heap
        # layout: a few attempts.
        detail = ""
        for i in range(3):
            died, site = replay_dies(binary, cfg, tmp, path, tier, want_class)
            if died and site == want_site:
                return True, True, "process died at %s (attempt %d)" % (site, i + 1)
            detail = "process died at %s" % site if died else "process survived"
        return False, False, detail
    attempts = 5 if want_class == "race" else 2
    if rf.get("nondeterministic"):
        # The run contains a select with two ready cases, constructed on
        # purpose: the Go runtime picks one at random.
        attempts = 12
    detail = ""
    for i in range(attempts):
        res, rc, err = replay_once(binary, cfg, tmp, "confirm", path, tier)
        if res is None:
            detail = "replay process died (exit %d): %s" % (rc, err[-2000:])
            continue
        if res.get("harness_error"):
            detail = "harness error on replay: " + res["harness_error"][:2000]
            continue
        rp = res.get("replayed") or {}
        v = rp.get("violation")
        if v and v["class"] == want_class and v["site"] == want_site:
            return True, bool(rp.get("same")), "attempt %d" % (i + 1)
        detail = "replay gave %r" % (v,)
    return False, False, detail


def write_evidence(check_id, tier, seed, cov, wall, violations, assumptions):
    os.makedirs(os.path.join(VERIF, "evidence"), exist_ok=True)
    ev = dict(
        property_id=check_id, tier=tier, seed=seed, level="exploration",
        coverage=cov, assumptions=assumptions, wall_s=round(wall, 2), violations=violations,
    )
    path = os.path.join(VERIF, "evidence", check_id + ".json")
    with open(path + ".tmp", "w") as f:
        json.dump(ev, f, indent=1)
    os.replace(path + ".tmp", path)


def load_meta(check_id):
    """Static description of the check (rule, components, assumptions)."""
    path = os.path.join(VERIF, "sim", check_id.lower(), "meta.json")
    with open(path) as f:
        return json.load(f)


def main():
    ap = argparse.ArgumentParser()
    ap.add_argument("id")
    ap.add_argument("--tier", default=os.environ.get("VERIF_TIER") or "quick", choices=["quick", "thorough"])
    ap.add_argument("--runs", type=int)
    ap.add_argument("--workers", type=int)
    ap.add_argument("--replay")
    ap.add_argument("--keep", action="store_true", help="keep the temporary directory")
    args = ap.parse_args()

    check_id = args.id.upper()
    if check_id not in CHECKS:
        log("HARNESS-ERROR: unknown check " + check_id)
        return 2
    cfg = CHECKS[check_id]
    tier = args.tier
    seed = int(os.environ.get("VERIF_SEED") or 1)
    repo = os.path.abspath(os.environ.get("VERIF_REPO") or "/repo")
    t_start = time.time()

    tmp = tempfile.mkdtemp(prefix="verif-%s-" % check_id)
    try:
        return drive(args, check_id, cfg, tier, seed, repo, tmp, t_start)
    finally:
        if args.keep:
            log("kept " + tmp)
        else:
            shutil.rmtree(tmp, ignore_errors=True)


def drive(args, check_id, cfg, tier, seed, repo, tmp, t_start):
    binary = build(check_id, cfg, repo, tmp)
    if binary is None:
        return 2

    if args.replay:
        path = os.path.abspath(args.replay)
        with open(path) as f:
            rf = json.load(f)
        ok, exact, detail = confirm_replay(binary, cfg, tmp, path, tier, rf.get("class"), rf.get("site"))
        if ok:
            log("replay reproduces %s@%s (%s, event log %s)" % (
                rf.get("class"), rf.get("site"), detail, "identical" if exact else "differs"))
            log("VIOLATION property=%s replay=%s" % (check_id, path))
            return 1
        log("replay does not reproduce the recorded violation: " + detail)
        return 0

    # replays/<ID>/ holds the replay files of the most recent run only.
    shutil.rmtree(os.path.join(VERIF, "replays", check_id), ignore_errors=True)

    known = load_known(check_id)
    known_sigs = [e["signature"] for e in known if e.get("status") == "known"]
    total = args.runs or cfg[tier]
    nworkers = args.workers or min(16, os.cpu_count() or 1)
    nworkers = max(1, min(nworkers, total))
    recheck = 50 if tier == "quick" else 500

    # The run indices are cut into slices; a pool of nworkers processes works
    # them off.  One process per slice bounds the memory of a worker (the race
    # detector's bookkeeping grows with the number of goroutines ever created)
    # and lets the driver stop handing out work after a violation.
    slice_len = cfg.get("slice") or (25_000 if cfg.get("race") else 1_000_000)
    slice_len = max(1, min(slice_len, -(-total // nworkers)))
    slices = [(a, min(a + slice_len, total)) for a in range(0, total, slice_len)]
    deadline = time.time() + WALL_CAP[tier]
    pending = list(enumerate(slices))
    running = {}  # slice index -> (proc, stderr file)
    rcs = {}
    stop_launching = False
    wall_capped = False
    while pending or running:
        while pending and len(running) < nworkers and not stop_launching:
            if time.time() > deadline:
                wall_capped = True
                pending = []
                break
            idx, (a, b) = pending.pop(0)
            extra = dict(
                VERIF_MODE="explore", VERIF_SEED=str(seed), VERIF_FROM=str(a), VERIF_TO=str(b),
                VERIF_STRIDE="1", VERIF_TIER=tier, VERIF_RECHECK=str(recheck),
                VERIF_MAX_WALL_S=str(WALL_CAP[tier]), VERIF_KNOWN="\n".join(known_sigs),
            )
            running[idx] = start_worker(binary, cfg, tmp, "w%d" % idx, extra)
        if stop_launching:
            pending = []
        done = [i for i, (p, _) in running.items() if p.poll() is not None]
        for i in done:
            p, errf = running.pop(i)
            rcs[i] = p.returncode
            errf.close()
            r = read_result(tmp, "w%d" % i)
            if r is None or r.get("violation") or r.get("harness_error"):
                stop_launching = True
        if not done:
            time.sleep(0.02)
    launched = sorted(rcs)

    results = []
    harness_errors = []
    violations = []  # (signature, violation dict, replay path)
    confirmed_deaths = 0
    for w in launched:
        name = "w%d" % w
        res = read_result(tmp, name)
        if res is None:
            # The process died: attribute to the run it was executing.
            prog = tail(os.path.join(tmp, name + ".progress"), 200).strip()
            m = re.search(r"seed=(\d+) run=(\d+)", prog)
            err = tail(os.path.join(tmp, name + ".stderr"), 30000)
            hang = tail(os.path.join(tmp, name + ".json.hang"), 200000)
            if not m:
                harness_errors.append("worker %d died (exit %d) without progress: %s" % (w, rcs[w], err[-3000:]))
                continue
            cseed, crun = int(m.group(1)), int(m.group(2))
            if confirmed_deaths >= 2:
                # Enough dead workers have been confirmed as crashes or hangs
                # of the code under test; the others are not re-run one by one.
                log("worker %d died (exit %d) during seed=%d run=%d (not re-run)" % (w, rcs[w], cseed, crun))
                continue
            log("worker %d died (exit %d) during seed=%d run=%d; re-running that run in a fresh process" % (
                w, rcs[w], cseed, crun))
            res2, rc2, err2 = run_single(binary, cfg, tmp, "crash%d" % w, cseed, crun, tier, known_sigs)
            if res2 is not None:
                if res2.get("violation"):
                    # Reproduced as an ordinary violation this time.
                    results.append(res2)
                    continue
                # The run alone survives.  The code under test may keep state
                # between runs (a package-level pool or cache): repeat the
                # worker's slice up to that run in one fresh process.
                frm = slices[w][0]
                died, at, err3, hang3, rc3 = run_range(binary, cfg, tmp, "range%d" % w, cseed, frm, crun + 1, tier)
                text = hang3 or err3
                klass = "hang" if (rc3 == 3 or hang3) else "crash"
                site = (hang_site(text) if klass == "hang" else crash_site(text)) if died else None
                if not died or not site:
                    harness_errors.append(
                        "worker %d died (exit %d) during seed=%d run=%d but neither the run nor runs %d..%d in a fresh process reproduce the crash: %s"
                        % (w, rcs[w], cseed, crun, frm, crun, err[-3000:]))
                    continue
                rdir = os.path.join(tmp, "replays")
                os.makedirs(rdir, exist_ok=True)
                rpath = os.path.join(rdir, "%s-seed%d-runs%d-%d.json" % (check_id, cseed, frm, at))
                with open(rpath, "w") as f:
                    json.dump({"property": check_id, "mode": "range", "seed": cseed, "from": frm, "to": at + 1,
                               "class": klass, "site": site, "message": text[-6000:],
                               "note": "the process dies only after the preceding runs in the same process: the code under test keeps state between runs"}, f, indent=1)
                confirmed_deaths += 1
                results.append(dict(violation={"class": klass, "site": site, "message": text[-3000:]}, replay=rpath,
                                    runs=0, steps=0, stats=dict(faults={}, probes={}), known_hits={}))
                continue
            hang2 = tail(os.path.join(tmp, "crash%d.json.hang" % w), 200000)
            text = hang2 or err2
            klass = "hang" if (rc2 == 3 or hang2) else "crash"
            site = hang_site(text) if klass == "hang" else crash_site(text)
            if not site:
                harness_errors.append(
                    "worker %d: reproducible %s at seed=%d run=%d without golibs frames:\n%s"
                    % (w, klass, cseed, crun, text[-4000:]))
                continue
            rdir = os.path.join(tmp, "replays")
            os.makedirs(rdir, exist_ok=True)
            rpath = os.path.join(rdir, "%s-seed%d-run%d.json" % (check_id, cseed, crun))
            rf = dict(property=check_id, mode="seed", seed=cseed, run=crun, **{
                "class": klass, "site": site, "message": text[-6000:]})
            # The re-run recorded its tape as it went: turn it into a replay
            # by tape and, for crashes (a hang costs a watchdog period per
            # candidate), minimise it with one fresh process per candidate.
            tpath = os.path.join(tmp, "crash%d.tape" % w)
            if os.path.exists(tpath) and os.path.getsize(tpath) >= 4:
                a = array.array("I")
                with open(tpath, "rb") as f:
                    raw = f.read()
                a.frombytes(raw[:len(raw) // 4 * 4])
                tape = list(a)
                rf.update(mode="death", tape=tape, original_tape_len=len(tape), shrink_executions=0)
                if klass == "crash" and confirmed_deaths == 0:
                    best, used = shrink_death(binary, cfg, tmp, tape, tier, klass, site, 40)
                    rf.update(tape=best, shrink_executions=used, unshrunk_tape=tape)
            with open(rpath, "w") as f:
                json.dump(rf, f, indent=1)
            confirmed_deaths += 1
            results.append(dict(violation={"class": klass, "site": site, "message": text[-3000:]}, replay=rpath,
                                runs=0, steps=0, stats=dict(faults={}, probes={}), known_hits={}))
            continue
        results.append(res)

    # Merge.
    runs = sum(r.get("runs", 0) for r in results)
    steps = sum(r.get("steps", 0) for r in results)
    inconclusive = sum(r.get("inconclusive", 0) for r in results)
    stalled = sum(r.get("stalled_runs", 0) for r in results)
    nontrivial = sum(r.get("nontrivial_runs", 0) for r in results)
    rechecked = sum(r.get("determinism_rechecks", 0) for r in results)
    sim_time = sum(r.get("sim_time_ns", 0) for r in results)
    timed_out = wall_capped or any(r.get("timed_out") for r in results)
    faults, probes, known_hits = {}, {}, {}
    for r in results:
        for k, v in (r.get("stats") or {}).get("faults", {}).items():
            faults[k] = faults.get(k, 0) + v
        for k, v in (r.get("stats") or {}).get("probes", {}).items():
            probes[k] = probes.get(k, 0) + v
        for k, v in (r.get("known_hits") or {}).items():
            known_hits[k] = known_hits.get(k, 0) + v
        if r.get("harness_error"):
            harness_errors.append(r["harness_error"])
        if r.get("violation"):
            v = r["violation"]
            violations.append((v["class"] + "@" + v["site"], v, r.get("replay")))
    sigs = set()
    capped = False
    union_cap = 4_000_000  # bounds the driver's memory; the count is then a lower bound
    for w in launched:
        p = os.path.join(tmp, "w%d.sigs" % w)
        if os.path.exists(p):
            if len(sigs) >= union_cap:
                capped = True
                continue
            a = array.array("Q")
            with open(p, "rb") as f:
                a.frombytes(f.read())
            sigs.update(a)
    capped = capped or any(r.get("sig_capped") for r in results)
    samples = []
    for r in results:
        for s in r.get("samples") or []:
            if len(samples) < 3:
                samples.append(s)

    wall = time.time() - t_start
    meta = load_meta(check_id)
    go_version = next((r.get("go_version") for r in results if r.get("go_version")), "")
    cov = dict(
        evaluations=runs,
        distinct_nontrivial=len(sigs),
        rule=meta["rule"] + (" (the distinct count is a lower bound: signature sets are capped per worker and in the driver)" if capped else ""),
        samples=samples or ["(no sample recorded)"],
        nontrivial_runs=nontrivial,
        steps_total=steps,
        runs_per_hour=int(runs / wall * 3600) if wall > 0 else 0,
        sim_time_covered_s=round(sim_time / 1e9, 3),
        faults_fired=faults,
        probes=probes,
        inconclusive_runs=inconclusive,
        stalled_runs=stalled,
        determinism_rechecks=rechecked,
        workers=nworkers,
        base_seed=seed,
        run_indices="0..%d in %d slices of %d (%d executed)" % (total - 1, len(slices), slice_len, len(launched)),
        stopped_by_wall_cap=timed_out,
        components=meta["components"],
        toolchain=go_version,
        race_detector=bool(cfg.get("race")),
        simulated_mutexes=cfg.get("simsync_used"),
        repo=repo,
        known_finding_hits=known_hits,
    )

    # Violations: keep one per signature, confirm each by a fresh-process replay.
    confirmed = []
    seen = set()
    tried = {}
    for sig, v, rpath in sorted(violations, key=lambda x: x[0]):
        # One confirmed replay per signature; if a candidate's replay does not
        # reproduce (a run whose outcome the simulator does not fully control),
        # the same signature found by another worker is tried, up to four.
        if sig in seen or len(confirmed) >= 3 or tried.get(sig, 0) >= 4:
            continue
        tried[sig] = tried.get(sig, 0) + 1
        if not rpath or not os.path.exists(rpath):
            harness_errors.append("violation %s without replay file" % sig)
            continue
        dst_dir = os.path.join(VERIF, "replays", check_id)
        os.makedirs(dst_dir, exist_ok=True)
        dst = os.path.join(dst_dir, os.path.basename(rpath))
        shutil.copyfile(rpath, dst)
        ok, exact, detail = confirm_replay(binary, cfg, tmp, dst, tier, v["class"], v["site"])
        if not ok:
            # Race verdicts can depend on the race detector's bounded shadow
            # memory: if the minimised tape does not reproduce in a fresh
            # process, fall back to the tape as it was found.
            with open(dst) as f:
                rf = json.load(f)
            if rf.get("unshrunk_tape"):
                rf["tape"] = rf.pop("unshrunk_tape")
                rf["note"] = "not minimised: the minimised tape did not reproduce in a fresh process"
                with open(dst, "w") as f:
                    json.dump(rf, f, indent=1)
                ok, exact, detail2 = confirm_replay(binary, cfg, tmp, dst, tier, v["class"], v["site"])
                detail += "; unshrunk tape: " + detail2
            if not ok and rf.get("mode") == "death" and "seed" in rf and "run" in rf:
                # Last resort for a death whose reproduction depends on the
                # heap layout: replay by seed and run index, as it was found.
                rf["mode"] = "seed"
                rf["note"] = "replayed by seed and run index: the recorded tape did not kill a fresh process again"
                with open(dst, "w") as f:
                    json.dump(rf, f, indent=1)
                ok, exact, detail3 = confirm_replay(binary, cfg, tmp, dst, tier, v["class"], v["site"])
                detail += "; by seed: " + detail3
        if not ok:
            harness_errors.append("violation %s found but its replay file %s does not reproduce it (%s): %s" % (
                sig, dst, detail, v["message"][:1500]))
            continue
        seen.add(sig)
        confirmed.append((sig, v, dst, exact))
    # A signature that was confirmed through a later candidate is no error.
    harness_errors = [h for h in harness_errors if not any(h.startswith("violation %s found" % s) for s in seen)]

    cov["violations_found"] = [dict(signature=s, replay=p, replay_identical=e) for s, _, p, e in confirmed]
    write_evidence(check_id, tier, seed, cov, wall, len(confirmed), meta["assumptions"])

    log("%s tier=%s seed=%d: %d runs, %d distinct non-trivial signatures, %d steps, %.1fs, faults=%s probes=%s" % (
        check_id, tier, seed, runs, len(sigs), steps, wall, json.dumps(faults, sort_keys=True),
        json.dumps(probes, sort_keys=True)))
    if stalled:
        log("note: %d of %d runs stalled (a goroutine waited for a mutex whose holder was parked at a yield) and count as inconclusive" % (stalled, runs))
    for e in known:
        if e.get("status") == "known":
            log("KNOWN-FINDING: property=%s %s (signature %s, hit %d times in this run)" % (
                check_id, e.get("what", ""), e["signature"], known_hits.get(e["signature"], 0)))
    for sig, v, dst, exact in confirmed:
        log("violation %s: %s" % (sig, v["message"][:3000]))
        log("VIOLATION property=%s replay=%s" % (check_id, dst))
    if harness_errors:
        for h in harness_errors[:5]:
            log("HARNESS-ERROR: " + h[:6000])
        if not confirmed:
            return 2
    if confirmed:
        return 1
    if runs == 0:
        log("HARNESS-ERROR: no runs executed")
        return 2
    return 0


if __name__ == "__main__":
    sys.exit(main())
