#!/usr/bin/env python3
"""Applies a patch to a scratch worktree of /repo (outside /repo and /verif), runs the
given check(s) against it through run.py with VERIF_REPO, and removes the worktree.

  trymutant.py <patch.diff> <ID> [<ID>...] [--tier quick] [--runs N] [--baseline]

--baseline additionally runs the repository's own test suite on the patched tree
(tag off) to confirm that the change is invisible to it."""
import argparse, os, subprocess, sys, tempfile, shutil

ap = argparse.ArgumentParser()
ap.add_argument("patch")
ap.add_argument("ids", nargs="+")
ap.add_argument("--tier", default="quick")
ap.add_argument("--runs")
ap.add_argument("--baseline", action="store_true")
ap.add_argument("--seed", default="1")
a = ap.parse_args()

wt = tempfile.mkdtemp(prefix="mutwt-")
os.rmdir(wt)
rc_all = {}
try:
    subprocess.run(["git", "-C", "/repo", "worktree", "add", "-q", "--detach", wt, "HEAD"], check=True)
    p = subprocess.run(["git", "-C", wt, "apply", "--3way", os.path.abspath(a.patch)], stdout=subprocess.PIPE, stderr=subprocess.STDOUT, text=True)
    if p.returncode != 0:
        p = subprocess.run(["git", "-C", wt, "apply", os.path.abspath(a.patch)], stdout=subprocess.PIPE, stderr=subprocess.STDOUT, text=True)
    if p.returncode != 0:
        print("PATCH DOES NOT APPLY:\n" + p.stdout)
        sys.exit(3)
    if a.baseline:
        env = dict(os.environ, GOFLAGS="-mod=mod", GOPROXY="off")
        for k in ("GOTOOLCHAIN", "GOSUMDB"):
            env.pop(k, None)
        b = subprocess.run(["go", "test", "-vet=off", "-count=1", "./..."], cwd=wt, env=env, stdout=subprocess.PIPE, stderr=subprocess.STDOUT, text=True)
        bad = [l for l in b.stdout.splitlines() if not (l.startswith("ok") or "no test files" in l)]
        print("baseline on patched tree: exit %d %s" % (b.returncode, ("; ".join(bad[:10]) if bad else "(all ok)")))
    for cid in a.ids:
        cmd = [sys.executable, "/verif/run.py", cid, "--tier", a.tier]
        if a.runs:
            cmd += ["--runs", a.runs]
        env = dict(os.environ, VERIF_REPO=wt, VERIF_SEED=a.seed)
        r = subprocess.run(cmd, env=env, stdout=subprocess.PIPE, stderr=subprocess.STDOUT, text=True)
        lines = r.stdout.splitlines()
        keep = [l for l in lines if l.startswith(("VIOLATION", "HARNESS-ERROR", "KNOWN", "violation ")) or " tier=" in l]
        print("== %s on %s: exit %d" % (cid, os.path.basename(a.patch), r.returncode))
        for l in keep[:8]:
            print("   " + l[:300])
        rc_all[cid] = r.returncode
finally:
    subprocess.run(["git", "-C", "/repo", "worktree", "remove", "--force", wt])
    shutil.rmtree(wt, ignore_errors=True)
    # evidence files were rewritten by the mutant run: restore is the caller's job (git checkout evidence)
sys.exit(0)
