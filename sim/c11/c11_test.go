// Package c11 decides property C11: the containers conform to their abstract
// set / ring models.  Real code: github.com/AdguardTeam/golibs/container.
// These objects have no concurrency, clock or I/O, so no fault kind applies;
// what the simulator contributes is the tape-driven interleaving of
// operations over several live objects that may share storage (an origin and
// clones made at drawn moments), each compared with its own model after every
// step.
package c11

import (
	"fmt"
	"math"
	"slices"
	"sort"
	"testing"

	"github.com/AdguardTeam/golibs/container"

	"verif/sim/kernel"
)

func TestWorker(t *testing.T) {
	kernel.WorkerMain(t, &kernel.Check{ID: "C11", Run: run})
}

type ctx struct {
	rc      *kernel.RunCtx
	sig     uint64
	log     []string
	nonTriv bool
}

func (c *ctx) logf(format string, a ...any) {
	if c.rc.KeepLog {
		c.log = append(c.log, fmt.Sprintf(format, a...))
	}
}

func (c *ctx) mix(a ...int) {
	b := make([]byte, 0, len(a))
	for _, x := range a {
		b = append(b, byte(x), byte(x>>8))
	}
	c.sig = kernel.HashBytes(c.sig, b)
}

func run(rc *kernel.RunCtx) {
	c := &ctx{rc: rc, sig: kernel.HashInit}
	func() {
		defer func() {
			if v := recover(); v != nil {
				rc.Fail("panic", "container", fmt.Sprintf("panic: %v", v))
			}
		}()
		if rc.Tape.Bool(1, 400) {
			runLargeSets(c)

			return
		}
		switch rc.Tape.Choose(8) {
		case 7:
			// A map set over floats, NaN included.
			runSets(c, newMapFloatObj)
		case 0, 1:
			runSets(c, newMapObj)
		case 2, 3:
			runSets(c, newSortedObj)
		case 4:
			// An element type with a non-trivial order (NaN, infinities).
			runSets(c, newSortedFloatObj)
		default:
			runRing(c)
		}
	}()
	rc.Log = c.log
	rc.LogHash = c.sig
	rc.Sig = c.sig
	rc.NonTrivial = c.nonTriv
}

// setAPI is the common surface of MapSet[int] and SortedSliceSet[int].
type setAPI interface {
	Add(v int)
	Clear()
	Delete(v int)
	Has(v int) bool
	Len() int
	Range(f func(v int) bool)
	Values() []int
	isNil() bool
	clone() setAPI
	equal(o setAPI) bool
	kind() string
	sorted() bool
}

type mapObj struct{ s *container.MapSet[int] }

func (o mapObj) Add(v int)                { o.s.Add(v) }
func (o mapObj) Clear()                   { o.s.Clear() }
func (o mapObj) Delete(v int)             { o.s.Delete(v) }
func (o mapObj) Has(v int) bool           { return o.s.Has(v) }
func (o mapObj) Len() int                 { return o.s.Len() }
func (o mapObj) Range(f func(v int) bool) { o.s.Range(f) }
func (o mapObj) Values() []int {
	// MapSet.Values hands out a slice of the caller's own (unlike
	// SortedSliceSet.Values, "values must not be modified"): the caller may do
	// with it what it likes, and does.
	vals := o.s.Values()
	out := slices.Clone(vals)
	for i := range vals {
		vals[i] = -7777
	}

	return out
}
func (o mapObj) isNil() bool         { return o.s == nil }
func (o mapObj) clone() setAPI       { return mapObj{o.s.Clone()} }
func (o mapObj) equal(x setAPI) bool { return o.s.Equal(x.(mapObj).s) }
func (o mapObj) kind() string        { return "MapSet" }
func (o mapObj) sorted() bool        { return false }

type sortedObj struct {
	s *container.SortedSliceSet[int]
}

func (o sortedObj) Add(v int)                { o.s.Add(v) }
func (o sortedObj) Clear()                   { o.s.Clear() }
func (o sortedObj) Delete(v int)             { o.s.Delete(v) }
func (o sortedObj) Has(v int) bool           { return o.s.Has(v) }
func (o sortedObj) Len() int                 { return o.s.Len() }
func (o sortedObj) Range(f func(v int) bool) { o.s.Range(f) }
func (o sortedObj) Values() []int            { return o.s.Values() }
func (o sortedObj) isNil() bool              { return o.s == nil }
func (o sortedObj) clone() setAPI            { return sortedObj{o.s.Clone()} }
func (o sortedObj) equal(x setAPI) bool      { return o.s.Equal(x.(sortedObj).s) }
func (o sortedObj) kind() string             { return "SortedSliceSet" }
func (o sortedObj) sorted() bool             { return true }

// floatUniverse maps the model's universe 0..7 onto float64 values in the
// order of cmp.Compare.  NaN (index 0) is used as an argument of Has and
// Delete only and is never added: "the set of added values" is defined by ==,
// under which NaN is not a value that can be found again.  (Observed and not
// flagged: NewSortedSliceSet(NaN, NaN) keeps both, and Equal is false for sets
// that contain NaN, because slices.Compact and slices.Equal use ==.)
var floatUniverse = [universe]float64{math.NaN(), math.Inf(-1), -1.5, 0, 1, 2.25, 1e300, math.Inf(1)}

func floatIndex(f float64) int {
	for i, x := range floatUniverse {
		if x == f || (math.IsNaN(x) && math.IsNaN(f)) {
			return i
		}
	}

	return -1
}

// sortedFloatObj is SortedSliceSet[float64] behind the int-valued API.
type sortedFloatObj struct {
	s *container.SortedSliceSet[float64]
}

func (o sortedFloatObj) Add(v int)      { o.s.Add(floatUniverse[v]) }
func (o sortedFloatObj) Clear()         { o.s.Clear() }
func (o sortedFloatObj) Delete(v int)   { o.s.Delete(floatUniverse[v]) }
func (o sortedFloatObj) Has(v int) bool { return o.s.Has(floatUniverse[v]) }
func (o sortedFloatObj) Len() int       { return o.s.Len() }
func (o sortedFloatObj) Range(f func(v int) bool) {
	o.s.Range(func(x float64) bool { return f(floatIndex(x)) })
}

func (o sortedFloatObj) Values() []int {
	vals := o.s.Values()
	if vals == nil {
		return nil
	}
	out := make([]int, 0, len(vals))
	for _, x := range vals {
		out = append(out, floatIndex(x))
	}

	return out
}
func (o sortedFloatObj) isNil() bool         { return o.s == nil }
func (o sortedFloatObj) clone() setAPI       { return sortedFloatObj{o.s.Clone()} }
func (o sortedFloatObj) equal(x setAPI) bool { return o.s.Equal(x.(sortedFloatObj).s) }
func (o sortedFloatObj) kind() string        { return "SortedSliceSet" }
func (o sortedFloatObj) sorted() bool        { return true }

// mapFloatObj is MapSet[float64] behind the int-valued API.  Under == a NaN
// is a value that is distinct from every value, itself included: every
// Add(NaN) adds a new element that can be neither found nor deleted, only
// cleared.  The model represents the i-th NaN of a set by the key nanBase+i.
type mapFloatObj struct {
	s *container.MapSet[float64]
}

const nanBase = 100

func (o mapFloatObj) Add(v int)      { o.s.Add(floatUniverse[v]) }
func (o mapFloatObj) Clear()         { o.s.Clear() }
func (o mapFloatObj) Delete(v int)   { o.s.Delete(floatUniverse[v]) }
func (o mapFloatObj) Has(v int) bool { return o.s.Has(floatUniverse[v]) }
func (o mapFloatObj) Len() int       { return o.s.Len() }
func (o mapFloatObj) Range(f func(v int) bool) {
	nans := 0
	o.s.Range(func(x float64) bool {
		if math.IsNaN(x) {
			nans++

			return f(nanBase + nans - 1)
		}

		return f(floatIndex(x))
	})
}

func (o mapFloatObj) Values() []int {
	vals := o.s.Values()
	if vals == nil {
		return nil
	}
	defer func() {
		for i := range vals {
			vals[i] = -7777 // the slice is the caller's, see mapObj.Values
		}
	}()
	out := make([]int, 0, len(vals))
	nans := 0
	for _, x := range vals {
		if math.IsNaN(x) {
			out = append(out, nanBase+nans)
			nans++

			continue
		}
		out = append(out, floatIndex(x))
	}

	return out
}
func (o mapFloatObj) isNil() bool         { return o.s == nil }
func (o mapFloatObj) clone() setAPI       { return mapFloatObj{o.s.Clone()} }
func (o mapFloatObj) equal(x setAPI) bool { return o.s.Equal(x.(mapFloatObj).s) }
func (o mapFloatObj) kind() string        { return "MapSet" }
func (o mapFloatObj) sorted() bool        { return false }

func newMapFloatObj(vals []int, nilSet bool) setAPI {
	if nilSet {
		return mapFloatObj{nil}
	}
	fs := make([]float64, 0, len(vals))
	for _, v := range vals {
		fs = append(fs, floatUniverse[v])
	}

	return mapFloatObj{container.NewMapSet(fs...)}
}

func newSortedFloatObj(vals []int, nilSet bool) setAPI {
	if nilSet {
		return sortedFloatObj{nil}
	}
	fs := make([]float64, 0, len(vals))
	for _, v := range vals {
		fs = append(fs, floatUniverse[v])
	}

	return sortedFloatObj{container.NewSortedSliceSet(fs...)}
}

// newMapObj and newSortedObj construct a set from initial values (nilSet: a
// nil receiver).
func newMapObj(vals []int, nilSet bool) setAPI {
	if nilSet {
		return mapObj{nil}
	}

	return mapObj{container.NewMapSet(vals...)}
}

func newSortedObj(vals []int, nilSet bool) setAPI {
	if nilSet {
		return sortedObj{nil}
	}

	// The slice is handed over: "elems must not be modified after calling".
	return sortedObj{container.NewSortedSliceSet(slices.Clone(vals)...)}
}

type live struct {
	obj   setAPI
	model map[int]bool
	name  string
}

func modelValues(m map[int]bool) []int {
	vs := make([]int, 0, len(m))
	for v := range m {
		vs = append(vs, v)
	}
	sort.Ints(vs)

	return vs
}

const universe = 8

func runSets(c *ctx, mk func(vals []int, nilSet bool) setAPI) {
	tp, rc := c.rc.Tape, c.rc
	_, floats := mk(nil, true).(sortedFloatObj)
	_, mapFloats := mk(nil, true).(mapFloatObj)
	// addToModel adds v to a model; in a float map set every NaN is a new
	// element.
	addToModel := func(m map[int]bool, v int) {
		if mapFloats && v == 0 {
			n := 0
			for k := range m {
				if k >= nanBase {
					n++
				}
			}
			m[nanBase+n] = true

			return
		}
		m[v] = true
	}
	hasNaN := func(m map[int]bool) bool {
		for k := range m {
			if k >= nanBase {
				return true
			}
		}

		return false
	}
	var objs []*live
	newLive := func(o setAPI, m map[int]bool) *live {
		l := &live{obj: o, model: m, name: "s" + kernel.Itoa(len(objs))}
		objs = append(objs, l)

		return l
	}
	// Origin from drawn initial values (with duplicates, unsorted).
	var init []int
	for n := tp.Choose(6); n > 0; n-- {
		v := tp.Choose(universe)
		if floats && v == 0 {
			v = 1 // NaN is never added
		}
		init = append(init, v)
	}
	m0 := map[int]bool{}
	for _, v := range init {
		addToModel(m0, v)
	}
	o0 := newLive(mk(init, false), m0)
	c.logf("%s: %s = New(%v)", o0.obj.kind(), o0.name, init)
	c.mix(len(init))
	if tp.Bool(1, 4) {
		n := newLive(mk(nil, true), nil)
		c.logf("%s = nil", n.name)
	}

	nOps := tp.Range(1, 30)
	// Sparse observation: objects are not queried after every step, so that
	// whatever an implementation defers until the next query of an object
	// (lazy sorting, cached views) is still pending when that object is used
	// in another role, e.g. as the argument of Equal or the origin of Clone.
	sparse := tp.Bool(1, 3)
	if sparse {
		rc.Stats.Probe("sparse-observation")
	}
	for i := 0; i < nOps; i++ {
		l := objs[tp.Choose(len(objs))]
		isNil := l.obj.isNil()
		op := tp.Choose(10)
		v := tp.Choose(universe)
		c.mix(op, v, len(objs))
		rc.Steps++
		switch op {
		case 0, 1:
			if isNil || (floats && v == 0) {
				continue // Add on a nil set is not documented to work; NaN is never added.
			}
			l.obj.Add(v)
			addToModel(l.model, v)
			c.logf("%s.Add(%d)", l.name, v)
		case 2:
			if isNil && l.obj.sorted() {
				continue // SortedSliceSet.Delete is not documented for nil.
			}
			l.obj.Delete(v)
			delete(l.model, v)
			c.logf("%s.Delete(%d)", l.name, v)
		case 3:
			if tp.Bool(1, 3) {
				l.obj.Clear()
				clear(l.model)
				c.logf("%s.Clear()", l.name)
			}
		case 4:
			if len(objs) < 5 {
				cl := l.obj.clone()
				var m map[int]bool
				if !isNil {
					m = map[int]bool{}
					for k := range l.model {
						m[k] = true
					}
				}
				if cl.isNil() != isNil {
					rc.Fail("clone-nil", l.obj.kind()+".Clone", fmt.Sprintf("Clone of nil=%v set is nil=%v", isNil, cl.isNil()))

					return
				}
				n := newLive(cl, m)
				c.nonTriv = true
				rc.Stats.Probe("clone")
				c.logf("%s = %s.Clone()", n.name, l.name)
			}
		case 5:
			o := objs[tp.Choose(len(objs))]
			if hasNaN(l.model) || hasNaN(o.model) {
				continue // Equal on sets that hold NaN is not defined by ==.
			}
			got := l.obj.equal(o.obj)
			want := isNil == o.obj.isNil() && (isNil || slices.Equal(modelValues(l.model), modelValues(o.model)))
			c.logf("%s.Equal(%s) = %v", l.name, o.name, got)
			if got != want {
				rc.Fail("equal", l.obj.kind()+".Equal", fmt.Sprintf("%s.Equal(%s) = %v, models: %v (nil=%v) vs %v (nil=%v)",
					l.name, o.name, got, modelValues(l.model), isNil, modelValues(o.model), o.obj.isNil()))

				return
			}
		case 6:
			// Range with early termination after stop+1 calls.
			stop := tp.Choose(universe + 1)
			var seen []int
			calls := 0
			l.obj.Range(func(x int) bool {
				calls++
				seen = append(seen, x)

				return calls <= stop
			})
			c.logf("%s.Range(stop after %d) visited %v", l.name, stop+1, seen)
			wantCalls := min(len(l.model), stop+1)
			if calls != wantCalls {
				rc.Fail("range-termination", l.obj.kind()+".Range", fmt.Sprintf(
					"Range over %v with a callback returning false at call %d made %d calls, want %d", modelValues(l.model), stop+1, calls, wantCalls))

				return
			}
			if !checkVisited(c, l, seen, calls == len(l.model), "Range") {
				return
			}
		default:
			got := l.obj.Has(v)
			c.logf("%s.Has(%d) = %v", l.name, v, got)
			if got != l.model[v] {
				rc.Fail("has", l.obj.kind()+".Has", fmt.Sprintf("%s.Has(%d) = %v, model %v", l.name, v, got, modelValues(l.model)))

				return
			}
		}
		// Every live object against its own model after every step (sparse
		// observation: one drawn object now and then, all at the end).
		if sparse && i != nOps-1 {
			if tp.Bool(1, 5) && !checkSet(c, objs[tp.Choose(len(objs))]) {
				return
			}

			continue
		}
		for _, x := range objs {
			if !checkSet(c, x) {
				return
			}
		}
	}
	if nOps >= 3 {
		c.nonTriv = true
	}
}

var errCallback = fmt.Errorf("verif: the callback panics")

func checkVisited(c *ctx, l *live, seen []int, complete bool, what string) bool {
	dup := map[int]bool{}
	for i, x := range seen {
		if !l.model[x] || dup[x] {
			c.rc.Fail("range-values", l.obj.kind()+"."+what, fmt.Sprintf("%s visited %v, model %v", what, seen, modelValues(l.model)))

			return false
		}
		dup[x] = true
		if l.obj.sorted() && i > 0 && seen[i-1] >= x {
			c.rc.Fail("not-ascending", l.obj.kind()+"."+what, fmt.Sprintf("%s visited %v: not strictly ascending", what, seen))

			return false
		}
	}
	if complete && len(seen) != len(l.model) {
		c.rc.Fail("range-values", l.obj.kind()+"."+what, fmt.Sprintf("%s visited %v, model %v", what, seen, modelValues(l.model)))

		return false
	}
	if l.obj.sorted() && !slices.Equal(seen, modelValues(l.model)[:len(seen)]) {
		c.rc.Fail("range-values", l.obj.kind()+"."+what, fmt.Sprintf("%s visited %v, want a prefix of %v", what, seen, modelValues(l.model)))

		return false
	}

	return true
}

func kindOf(l *live) string { return l.obj.kind() }

func (o sortedObj) str() string         { return o.s.String() }
func (o sortedObj) rawValues() any      { return o.s.Values() }
func (o sortedFloatObj) str() string    { return o.s.String() }
func (o sortedFloatObj) rawValues() any { return o.s.Values() }

func checkSet(c *ctx, l *live) bool {
	rc := c.rc
	kind := l.obj.kind()
	if st, ok := l.obj.(interface{ str() string }); ok {
		// Documented: String on a nil *SortedSliceSet does not panic; on any
		// set it is the %v rendering of Values.
		if got, want := st.str(), fmt.Sprintf("%v", st.(interface{ rawValues() any }).rawValues()); got != want {
			rc := c.rc
			rc.Fail("string", kindOf(l)+".String", fmt.Sprintf("String() = %q, want %q", got, want))

			return false
		}
	}
	if l.obj.isNil() {
		vals := l.obj.Values()
		calls := 0
		l.obj.Range(func(int) bool { calls++; return true })
		if l.obj.Len() != 0 || l.obj.Has(1) || vals != nil || calls != 0 {
			rc.Fail("nil-receiver", kind, fmt.Sprintf("nil set: Len=%d Has(1)=%v Values=%v Range calls=%d", l.obj.Len(), l.obj.Has(1), vals, calls))

			return false
		}

		return true
	}
	want := modelValues(l.model)
	if l.obj.Len() != len(want) {
		rc.Fail("len", kind+".Len", fmt.Sprintf("%s.Len() = %d, model %v", l.name, l.obj.Len(), want))

		return false
	}
	for v := 0; v < universe; v++ {
		if l.obj.Has(v) != l.model[v] {
			rc.Fail("has", kind+".Has", fmt.Sprintf("%s.Has(%d) = %v, model %v", l.name, v, l.obj.Has(v), want))

			return false
		}
	}
	vals := slices.Clone(l.obj.Values())
	if l.obj.sorted() {
		for i := 1; i < len(vals); i++ {
			if vals[i-1] >= vals[i] {
				rc.Fail("not-ascending", kind+".Values", fmt.Sprintf("%s.Values() = %v: not strictly ascending", l.name, vals))

				return false
			}
		}
	}
	sort.Ints(vals)
	if !slices.Equal(vals, want) {
		rc.Fail("values", kind+".Values", fmt.Sprintf("%s.Values() = %v, model %v", l.name, vals, want))

		return false
	}
	var seen []int
	l.obj.Range(func(x int) bool { seen = append(seen, x); return true })

	return checkVisited(c, l, seen, true, "Range")
}

// runLargeSets is a history over sets with thousands of elements (growth,
// mass deletion, Clear, reuse): thresholds in the storage management must not
// show in the behaviour.  The sets are compared with the model at checkpoints
// rather than after every step.
func runLargeSets(c *ctx) {
	tp, rc := c.rc.Tape, c.rc
	rc.Stats.Probe("large-sets")
	n := tp.Range(100, 6000)
	ms := container.NewMapSet[int]()
	ss := container.NewSortedSliceSet[int]()
	model := map[int]bool{}
	check := func(when string) bool {
		want := modelValues(model)
		if ms.Len() != len(want) || ss.Len() != len(want) {
			rc.Fail("len", "container.Len", fmt.Sprintf("%s (%d values added): MapSet.Len=%d SortedSliceSet.Len=%d, model %d", when, n, ms.Len(), ss.Len(), len(want)))

			return false
		}
		sv := ss.Values()
		if !slices.Equal(sv, want) {
			rc.Fail("values", "SortedSliceSet.Values", fmt.Sprintf("%s (%d values added): Values differs from the model (len %d vs %d) or is not ascending", when, n, len(sv), len(want)))

			return false
		}
		mv := slices.Clone(ms.Values())
		sort.Ints(mv)
		if !slices.Equal(mv, want) {
			rc.Fail("values", "MapSet.Values", fmt.Sprintf("%s: MapSet.Values differs from the model", when))

			return false
		}
		for _, probe := range []int{-1, 0, n / 2, n - 1, n} {
			if ms.Has(probe) != model[probe] || ss.Has(probe) != model[probe] {
				rc.Fail("has", "container.Has", fmt.Sprintf("%s: Has(%d) = %v / %v, model %v", when, probe, ms.Has(probe), ss.Has(probe), model[probe]))

				return false
			}
		}

		return true
	}
	if tp.Bool(1, 2) {
		// Constructed from a large input: ascending, descending, scattered
		// or in blocks, with every dupEvery-th value given twice.
		shape, dupEvery := tp.Choose(4), tp.Range(1, 50)
		input := make([]int, 0, n+n/dupEvery+1)
		for i := 0; i < n; i++ {
			v := i
			switch shape {
			case 1:
				v = n - 1 - i
			case 2:
				v = (i * 7919) % n
			case 3:
				v = i / 3 * 3
			}
			input = append(input, v)
			if i%dupEvery == 0 {
				input = append(input, v)
			}
			model[v] = true
		}
		// Each constructor gets a slice of its own (NewSortedSliceSet takes
		// its argument over; what NewMapSet may do with its one is not part
		// of the statement).
		ms = container.NewMapSet(slices.Clone(input)...)
		ss = container.NewSortedSliceSet(slices.Clone(input)...)
		rc.Stats.Probe("large-constructor-input")
		if !check("after construction from " + kernel.Itoa(len(input)) + " values (shape " + kernel.Itoa(shape) + ")") {
			return
		}
	} else {
		// Growth in a scattered order.
		for i := 0; i < n; i++ {
			v := (i * 7919) % n
			ms.Add(v)
			ss.Add(v)
			model[v] = true
		}
		if !check("after growth") {
			return
		}
	}
	if tp.Bool(1, 3) {
		// Clear while large, then reuse.
		ms.Clear()
		ss.Clear()
		clear(model)
		if !check("after Clear of the large sets") {
			return
		}
		for i := 0; i < 40; i++ {
			v := tp.Choose(n + 10)
			ms.Add(v)
			ss.Add(v)
			model[v] = true
		}
		check("after reuse of the cleared large sets")
		c.mix(9998, n)

		return
	}
	// Mass deletion with checkpoints.
	keep := tp.Choose(n/4 + 1)
	step := max(1, (n-keep)/12)
	for i := 0; i < n-keep; i++ {
		ms.Delete(i)
		ss.Delete(i)
		delete(model, i)
		if i%step == 0 && !check("during deletion") {
			return
		}
	}
	if !check("after deletion") {
		return
	}
	if tp.Bool(1, 2) {
		ms.Clear()
		ss.Clear()
		clear(model)
		if !check("after Clear") {
			return
		}
	}
	// Reuse.
	for i := 0; i < 40; i++ {
		v := tp.Choose(n + 10)
		ms.Add(v)
		ss.Add(v)
		model[v] = true
	}
	check("after reuse")
	rc.Steps += int64(2 * n)
	c.mix(9999, n, keep)
}

// ---- RingBuffer ----

func runRing(c *ctx) {
	tp, rc := c.rc.Tape, c.rc
	capacity := tp.Choose(6)
	// Large rings (1 run in 300): values are pushed in batches and the buffer
	// is compared with the model after each batch.
	large := tp.Bool(1, 300)
	if large {
		capacity = tp.Range(500, 3000)
		rc.Stats.Probe("large-ring")
	}
	rb := container.NewRingBuffer[int](uint(capacity))
	var model []int // values pushed since creation or the last Clear
	next := 1
	c.logf("RingBuffer: capacity %d", capacity)
	c.mix(100, capacity)

	retained := func() []int {
		if len(model) > capacity {
			return model[len(model)-capacity:]
		}

		return model
	}
	check := func(after string) bool {
		want := retained()
		if int(rb.Len()) != len(want) {
			rc.Fail("ring-len", "RingBuffer.Len", fmt.Sprintf("after %s: Len() = %d, want %d (capacity %d, retained %v)", after, rb.Len(), len(want), capacity, want))

			return false
		}
		var got []int
		rb.Range(func(x int) bool { got = append(got, x); return true })
		if !slices.Equal(got, want) {
			rc.Fail("ring-range", "RingBuffer.Range", fmt.Sprintf("after %s: Range yields %v, want oldest-first %v (capacity %d)", after, got, want, capacity))

			return false
		}
		got = nil
		rb.ReverseRange(func(x int) bool { got = append(got, x); return true })
		rev := slices.Clone(want)
		slices.Reverse(rev)
		if !slices.Equal(got, rev) {
			rc.Fail("ring-reverse", "RingBuffer.ReverseRange", fmt.Sprintf("after %s: ReverseRange yields %v, want newest-first %v (capacity %d)", after, got, rev, capacity))

			return false
		}
		wantCur := 0
		if capacity > 0 && len(want) == capacity {
			wantCur = want[0]
		}
		if cur := rb.Current(); cur != wantCur {
			rc.Fail("ring-current", "RingBuffer.Current", fmt.Sprintf(
				"after %s: Current() = %d, want %d (capacity %d, retained %v: oldest value when full, zero value otherwise)", after, cur, wantCur, capacity, want))

			return false
		}

		return true
	}
	if !check("creation") {
		return
	}

	nOps := tp.Range(1, 30)
	if large {
		nOps = tp.Range(2, 10)
	}
	for i := 0; i < nOps; i++ {
		op := tp.Choose(10)
		c.mix(op)
		rc.Steps++
		switch {
		case op < 6:
			if large {
				for n := tp.Range(1, capacity+capacity/2); n > 1; n-- {
					rb.Push(next)
					model = append(model, next)
					next++
				}
			}
			rb.Push(next)
			model = append(model, next)
			c.logf("Push(%d)", next)
			next++
			if len(model) > capacity && capacity > 0 {
				c.nonTriv = true
				rc.Stats.Probe("ring-wrapped")
			}
			if !check("Push") {
				return
			}
		case op < 7:
			rb.Clear()
			if len(model) > 0 {
				rc.Stats.Probe("ring-clear-nonempty")
				c.nonTriv = true
			}
			model = nil
			c.logf("Clear()")
			if !check("Clear") {
				return
			}
		default:
			// Early-terminating Range / ReverseRange.
			want := retained()
			stop := tp.Choose(capacity + 2)
			reverse := op >= 9
			c.mix(stop)
			var got []int
			calls := 0
			// What the callback does besides looking: nothing, iterate the
			// buffer the other way round (a read), or panic at its last call
			// (the caller recovers; the buffer must be none the worse).
			extra := 0
			if !large {
				extra = tp.Choose(6)
			}
			nestedBad := ""
			f := func(x int) bool {
				calls++
				got = append(got, x)
				switch {
				case extra == 1:
					var inner []int
					if reverse {
						rb.Range(func(y int) bool { inner = append(inner, y); return true })
					} else {
						rb.ReverseRange(func(y int) bool { inner = append(inner, y); return true })
						slices.Reverse(inner)
					}
					if !slices.Equal(inner, want) && nestedBad == "" {
						nestedBad = fmt.Sprintf("an iteration started from inside a callback yields %v, retained %v", inner, want)
					}
				case extra == 2 && calls > stop:
					panic(errCallback)
				}

				return calls <= stop
			}
			exp := slices.Clone(want)
			name := "Range"
			func() {
				defer func() {
					if v := recover(); v != nil && v != any(errCallback) {
						panic(v)
					}
				}()
				if reverse {
					slices.Reverse(exp)
					name = "ReverseRange"
					rb.ReverseRange(f)
				} else {
					rb.Range(f)
				}
			}()
			switch extra {
			case 1:
				rc.Stats.Probe("ring-iteration-inside-callback")
			case 2:
				rc.Stats.Probe("ring-callback-panics")
			}
			if nestedBad != "" {
				rc.Fail("ring-range", "RingBuffer."+name, nestedBad)

				return
			}
			exp = exp[:min(len(exp), stop+1)]
			c.logf("%s(stop after %d) = %v", name, stop+1, got)
			if !slices.Equal(got, exp) {
				rc.Fail("ring-termination", "RingBuffer."+name, fmt.Sprintf(
					"%s with a callback returning false at call %d visited %v, want %v (capacity %d, retained %v)", name, stop+1, got, exp, capacity, want))

				return
			}
		}
	}

	// A nil ring buffer's Current is documented to return the zero value.
	var nilRB *container.RingBuffer[int]
	if nilRB.Current() != 0 {
		rc.Fail("ring-current", "RingBuffer.Current", "Current on a nil buffer is not the zero value")
	}
}
