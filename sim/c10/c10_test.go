// Package c10 decides property C10: the cache is safe and linearizable under
// concurrent use.  Real code: github.com/AdguardTeam/golibs/cache.  The
// simulator owns every lock acquisition (guarded hooks), every operation
// boundary and the OnDelete callback; oracles: race detector under invisible
// hand-off, per-key linearizability (porcupine), Stats bounds, quiescent
// audit, deadlock.
package c10

import (
	"fmt"
	"runtime/debug"
	"testing"
	"time"

	"github.com/AdguardTeam/golibs/cache"
	"github.com/anishathalye/porcupine"

	"verif/sim/kernel"
)

const (
	opSet = iota
	opGet
	opDel
	opClear
	opStats
	opEvict // only in the history: an OnDelete callback
)

var opNames = [...]string{"Set", "Get", "Del", "Clear", "Stats", "Evict"}

type op struct {
	kind int
	key  int
	val  int // value id for Set
}

// Configuration kinds.
const (
	cfgUnlimited = iota
	cfgLRUCallback
	cfgLRUSilent
	cfgNoLRULimits
	numCfg
)

type hist struct {
	kind     int
	key      int
	val      int // Set: value id; Evict: evicted value id
	task     int
	call     int64
	ret      int64
	replaced bool
	got      int // Get: value id, -1 nil, -2 unknown bytes
	stats    cache.Stats
}

type runData struct {
	conf     cache.Config
	cfgKind  int
	nKeys    int
	keys     [][]byte
	vals     [][]byte
	valOf    map[string]int
	history  []hist
	maxElem  uint
	auditErr string
}

func TestWorker(t *testing.T) {
	kernel.WorkerMain(t, &kernel.Check{
		ID:     "C10",
		Bubble: true,
		Setup: func() {
			cache.SimHook = kernel.HookPoint
			if overlayHooks != nil {
				overlayHooks()
			}
			if simsyncHooks != nil {
				simsyncHooks()
			}
		},
		Run:   run,
		After: after,
	})
}

func run(rc *kernel.RunCtx) {
	tp := rc.Tape
	k := kernel.NewKernel(tp)
	k.KeepLog = rc.KeepLog

	d := &runData{valOf: map[string]int{}}
	rc.Data = d

	nTasks := tp.Range(2, 5)
	// Some runs are crowds: many callers with an operation or two each, so
	// that more calls are in progress at once than the usual handful (waiter
	// counts, per-call slots and the like are then exceeded).
	crowd := tp.Bool(1, 64)
	if crowd {
		nTasks = tp.Range(6, 24)
		rc.Stats.Probe("crowd-of-callers")
	}
	d.nKeys = tp.Range(2, 4)
	d.cfgKind = tp.Choose(numCfg)
	for i := 0; i < d.nKeys; i++ {
		// Keys of different lengths (size accounting mixes keys and values).
		key := fmt.Sprintf("k%d", i)
		for p := i % 3; p > 0; p-- {
			key += "_"
		}
		d.keys = append(d.keys, []byte(key))
	}

	// Operation lists and values are generated up front on the scheduler
	// goroutine, so that value bytes are written before any task starts.
	ops := make([][]op, nTasks)
	for ti := range ops {
		n := tp.Range(2, 8)
		if crowd {
			n = 1 + n%2
		}
		for j := 0; j < n; j++ {
			o := op{key: tp.Choose(d.nKeys)}
			switch c := tp.Choose(20); {
			case c < 7:
				o.kind = opSet
				o.val = len(d.vals)
				v := fmt.Sprintf("v%d.%d", ti, j)
				for p := tp.Choose(4); p > 0; p-- {
					v += "x"
				}
				d.vals = append(d.vals, []byte(v))
				d.valOf[v] = o.val
			case c < 13:
				o.kind = opGet
			case c < 16:
				o.kind = opDel
			case c < 17:
				o.kind = opClear
			default:
				o.kind = opStats
			}
			ops[ti] = append(ops[ti], o)
		}
	}

	// Operations that OnDelete callbacks may perform from inside the unlock
	// window of Set (re-entrant use under concurrency), generated up front
	// like everything else that tasks dereference.
	var cbOps []op
	reentrant := tp.Bool(1, 3)
	if reentrant {
		for n := tp.Range(1, 6); n > 0; n-- {
			o := op{key: tp.Choose(d.nKeys)}
			switch c := tp.Choose(10); {
			case c < 3:
				o.kind = opSet
				o.val = len(d.vals)
				v := fmt.Sprintf("c%d", len(cbOps))
				for p := tp.Choose(4); p > 0; p-- {
					v += "y"
				}
				d.vals = append(d.vals, []byte(v))
				d.valOf[v] = o.val
			case c < 6:
				o.kind = opGet
			case c < 8:
				o.kind = opDel
			case c < 9:
				o.kind = opClear
			default:
				o.kind = opStats
			}
			cbOps = append(cbOps, o)
		}
	}
	cbNext := 0                  // scheduler-side: next callback operation
	depth := make([]int, nTasks) // scheduler-side: callback nesting per task

	conf := cache.Config{}
	switch d.cfgKind {
	case cfgUnlimited:
		conf.EnableLRU = tp.Bool(1, 2)
	case cfgLRUCallback, cfgLRUSilent:
		conf.EnableLRU = true
	}
	if d.cfgKind != cfgUnlimited {
		switch tp.Choose(3) {
		case 0:
			conf.MaxCount = uint(tp.Range(1, 3))
		case 1:
			conf.MaxSize = uint(tp.Range(8, 30))
		default:
			conf.MaxCount = uint(tp.Range(1, 3))
			conf.MaxSize = uint(tp.Range(8, 30))
		}
		if tp.Bool(1, 4) {
			conf.MaxElementSize = uint(tp.Range(6, 12))
		}
	}
	d.maxElem = conf.MaxElementSize
	if d.maxElem == 0 || (conf.MaxSize != 0 && d.maxElem > conf.MaxSize) {
		d.maxElem = conf.MaxSize
	}

	var seq int64
	stamp := func() int64 { seq++; return seq }

	// curCall[task] is the call stamp of the operation the task is in; it is
	// scheduler-side state.
	curCall := make([]int64, nTasks)

	var c cache.Cache
	auditing := false
	if d.cfgKind == cfgLRUCallback || (d.cfgKind == cfgNoLRULimits && tp.Bool(1, 2)) {
		conf.OnDelete = func(key, val []byte) {
			if auditing {
				// The quiescent audit runs on the scheduler goroutine after
				// all tasks have finished: evictions it causes are neither
				// recorded nor used for re-entrant operations.
				return
			}
			kid, vid := keyID(d, key), valID(d, val)
			defer func() {
				// Possibly one re-entrant operation from inside the callback.
				type nested struct {
					o    op
					ti   int
					call int64
					prev int64
				}
				// The result travels by value (boxed by the runtime): memory
				// that the scheduler initialises during the run must never be
				// dereferenced by a task.
				n := k.Ask("OnDelete.op", func() any {
					t := kLast(k)
					if t == nil || t.Idx >= nTasks || depth[t.Idx] > 0 || cbNext >= len(cbOps) || !tp.Bool(1, 2) {
						return nested{ti: -1}
					}
					o := cbOps[cbNext]
					cbNext++
					depth[t.Idx]++
					rc.Stats.Probe("reentrant-op-in-callback")
					s := stamp()
					prev := curCall[t.Idx]
					curCall[t.Idx] = s

					return nested{o: o, ti: t.Idx, call: s, prev: prev}
				}).(nested)
				if n.ti < 0 {
					return
				}
				h := hist{kind: n.o.kind, key: n.o.key, val: n.o.val, task: n.ti, call: n.call, got: -1}
				pv, stack := doOp(c, d, n.o, &h)
				if pv != nil {
					k.Report("panic", kernel.PanicSite(stack), fmt.Sprintf("%s from inside OnDelete panicked: %v\n%s", opNames[n.o.kind], pv, stack))

					return
				}
				k.Tell("OnDelete.ret "+opNames[n.o.kind], func() {
					h.ret = stamp()
					d.history = append(d.history, h)
					depth[n.ti]--
					curCall[n.ti] = n.prev
					k.Logf("    T", kernel.Itoa(n.ti), " (in OnDelete) ", describe(&h))
					if n.o.kind == opStats {
						checkStatsBounds(k, d, &h)
					}
				})
			}()
			k.Tell("OnDelete", func() {
				// The enclosing Set belongs to the task that is running.
				ti := -1
				if t := kLast(k); t != nil {
					ti = t.Idx
				}
				call := int64(0)
				if ti >= 0 && ti < len(curCall) {
					call = curCall[ti]
				}
				d.history = append(d.history, hist{
					kind: opEvict, key: kid, val: vid, task: ti, call: call, ret: stamp(),
				})
				k.Logf("  OnDelete(k", kernel.Itoa(kid), ", #", kernel.Itoa(vid), ")")
			})
		}
	}
	d.conf = conf

	c = cache.New(conf)
	k.Logf("config kind=", kernel.Itoa(d.cfgKind), " lru=", btoa(conf.EnableLRU),
		" maxcount=", kernel.Itoa(int(conf.MaxCount)), " maxsize=", kernel.Itoa(int(conf.MaxSize)),
		" maxelem=", kernel.Itoa(int(conf.MaxElementSize)), " ondelete=", btoa(conf.OnDelete != nil),
		" tasks=", kernel.Itoa(nTasks), " keys=", kernel.Itoa(d.nKeys))

	for ti := 0; ti < nTasks; ti++ {
		ti := ti
		k.Go("T"+kernel.Itoa(ti), false, func() {
			for _, o := range ops[ti] {
				o := o
				call := k.Ask("inv "+opNames[o.kind], func() any {
					s := stamp()
					curCall[ti] = s

					return s
				}).(int64)

				h := hist{kind: o.kind, key: o.key, val: o.val, task: ti, call: call, got: -1}
				pv, stack := doOp(c, d, o, &h)
				if pv != nil {
					site := kernel.PanicSite(stack)
					k.Report("panic", site, fmt.Sprintf("%s panicked: %v\n%s", opNames[o.kind], pv, stack))

					return
				}
				k.Tell("ret "+opNames[o.kind], func() {
					h.ret = stamp()
					d.history = append(d.history, h)
					k.Logf("  T", kernel.Itoa(ti), " ", describe(&h))
					if o.kind == opStats {
						checkStatsBounds(k, d, &h)
					}
				})
			}
		})
	}

	k.Run()

	if !k.Failed() && k.HarnessErr == "" && k.Inconclusive == "" {
		for _, t := range k.Tasks() {
			if !t.Daemon && !t.Exited() {
				site := t.ParkedSite()
				if site == "" {
					site = "blocked"
				}
				k.Fail("deadlock", site, "task "+t.Name+" can never run again (parked at "+site+
					" with the lock held forever, or blocked inside the cache)")

				break
			}
		}
	}
	failed := k.Failed()
	k.Finish()

	if !failed && k.HarnessErr == "" && k.Inconclusive == "" {
		auditing = true
		audit(c, d, stamp)
	}
	rc.Adopt(k)
	if d.auditErr != "" {
		rc.Fail("audit", "quiescent", d.auditErr)
	}
}

func kLast(k *kernel.Kernel) *kernel.Task { return k.LastRun() }

func btoa(b bool) string {
	if b {
		return "1"
	}

	return "0"
}

func keyID(d *runData, key []byte) int {
	for i, kk := range d.keys {
		if string(kk) == string(key) {
			return i
		}
	}

	return -2
}

func valID(d *runData, val []byte) int {
	if val == nil {
		return -1
	}
	if id, ok := d.valOf[string(val)]; ok {
		return id
	}

	return -2
}

// doOp performs one cache operation on the task goroutine.
func doOp(c cache.Cache, d *runData, o op, h *hist) (pv any, stack string) {
	defer func() {
		if v := recover(); v != nil {
			if kernel.IsAbort(v) {
				panic(v)
			}
			pv = v
			stack = string(debug.Stack())
		}
	}()
	switch o.kind {
	case opSet:
		h.replaced = c.Set(d.keys[o.key], d.vals[o.val])
	case opGet:
		h.got = valID(d, c.Get(d.keys[o.key]))
	case opDel:
		c.Del(d.keys[o.key])
	case opClear:
		c.Clear()
	case opStats:
		h.stats = c.Stats()
	}

	return nil, ""
}

func describe(h *hist) string {
	s := opNames[h.kind]
	switch h.kind {
	case opSet:
		s += "(k" + kernel.Itoa(h.key) + ", #" + kernel.Itoa(h.val) + ")=" + btoa(h.replaced)
	case opGet:
		s += "(k" + kernel.Itoa(h.key) + ")=#" + kernel.Itoa(h.got)
	case opDel:
		s += "(k" + kernel.Itoa(h.key) + ")"
	case opStats:
		s += "={count " + kernel.Itoa(h.stats.Count) + " size " + kernel.Itoa(h.stats.Size) + "}"
	}

	return s + " [" + kernel.Itoa(int(h.call)) + "," + kernel.Itoa(int(h.ret)) + "]"
}

func checkStatsBounds(k *kernel.Kernel, d *runData, h *hist) {
	s := h.stats
	bad := s.Count < 0 || s.Size < 0 ||
		(d.conf.MaxCount != 0 && uint(s.Count) > d.conf.MaxCount) ||
		(d.conf.MaxSize != 0 && uint(s.Size) > d.conf.MaxSize)
	if bad {
		k.Fail("stats-bound", "Stats", fmt.Sprintf(
			"Stats snapshot %+v outside the configured bounds MaxCount=%d MaxSize=%d",
			s, d.conf.MaxCount, d.conf.MaxSize))
	}
}

// audit runs at quiescence on the scheduler goroutine with the kernel off.
func audit(c cache.Cache, d *runData, stamp func() int64) {
	defer func() {
		if v := recover(); v != nil {
			d.auditErr = fmt.Sprintf("panic in quiescent audit: %v\n%s", v, debug.Stack())
		}
	}()
	before := c.Stats()
	count, size := 0, 0
	for i, key := range d.keys {
		s := stamp()
		v := c.Get(key)
		id := valID(d, v)
		d.history = append(d.history, hist{kind: opGet, key: i, task: 99, call: s, ret: stamp(), got: id})
		if v != nil {
			count++
			size += len(key) + len(v)
		}
	}
	if before.Count != count || before.Size != size {
		d.auditErr = fmt.Sprintf(
			"at quiescence Stats reports count=%d size=%d but the %d keys hold %d live entries of total size %d",
			before.Count, before.Size, len(d.keys), count, size)
	}
	if (d.conf.MaxCount != 0 && uint(before.Count) > d.conf.MaxCount) ||
		(d.conf.MaxSize != 0 && uint(before.Size) > d.conf.MaxSize) {
		d.auditErr = fmt.Sprintf("at quiescence Stats %+v exceeds MaxCount=%d MaxSize=%d",
			before, d.conf.MaxCount, d.conf.MaxSize)
	}
	if d.auditErr != "" {
		return
	}

	// The cache must still work: a Set that fits (by count, by size, by
	// element size) is not refused at quiescence and is readable afterwards,
	// whatever the concurrent history before left behind.
	for i, key := range d.keys {
		if c.Get(key) != nil {
			continue
		}
		val := []byte("probe")
		add := uint(len(key) + len(val))
		if d.maxElem != 0 && add > d.maxElem {
			continue
		}
		st := c.Stats()
		room := (d.conf.MaxCount == 0 || uint(st.Count) < d.conf.MaxCount) &&
			(d.conf.MaxSize == 0 || uint(st.Size)+add <= d.conf.MaxSize)
		if !room && !d.conf.EnableLRU {
			continue
		}
		replaced := c.Set(key, val)
		if got := c.Get(key); replaced || string(got) != "probe" {
			d.auditErr = fmt.Sprintf(
				"at quiescence Set(k%d, \"probe\") on %+v with %s returned replaced=%v and a following Get returned %q: a Set that fits was refused or lost",
				i, st, confString(d), replaced, got)
		}

		break
	}
}

// Register model.

type reg struct {
	present bool
	val     int
}

type regIn struct {
	kind     int
	val      int
	tooLarge bool
}

type regOut struct {
	replaced bool
	got      int
}

func model(cfgKind int) porcupine.Model {
	silent := cfgKind == cfgLRUSilent
	mayRefuse := cfgKind == cfgNoLRULimits
	nm := porcupine.NondeterministicModel{
		Init: func() []interface{} { return []interface{}{reg{}} },
		Step: func(state, input, output interface{}) []interface{} {
			st := state.(reg)
			in := input.(regIn)
			out := output.(regOut)
			pre := []reg{st}
			if silent && st.present {
				pre = append(pre, reg{})
			}
			var next []interface{}
			for _, s := range pre {
				switch in.kind {
				case opSet:
					switch {
					case in.tooLarge:
						if !out.replaced {
							next = append(next, s)
						}
					case out.replaced:
						if s.present {
							next = append(next, reg{present: true, val: in.val})
						}
					default:
						if !s.present {
							next = append(next, reg{present: true, val: in.val})
						}
						if mayRefuse {
							next = append(next, s)
						}
					}
				case opGet:
					if out.got == -1 {
						if !s.present {
							next = append(next, s)
						}
					} else if s.present && s.val == out.got {
						next = append(next, s)
					}
				case opDel, opClear:
					next = append(next, reg{})
				case opEvict:
					if s.present && s.val == in.val {
						next = append(next, reg{})
					}
				}
			}

			return next
		},
		Equal: func(a, b interface{}) bool { return a.(reg) == b.(reg) },
	}

	return nm.ToModel()
}

// after checks per-key linearizability outside the bubble.
func after(rc *kernel.RunCtx) {
	d := rc.Data.(*runData)
	m := model(d.cfgKind)
	for key := 0; key < d.nKeys; key++ {
		var ops []porcupine.Operation
		for i := range d.history {
			h := &d.history[i]
			if h.kind == opStats {
				continue
			}
			if h.kind != opClear && h.key != key {
				continue
			}
			in := regIn{kind: h.kind, val: h.val}
			if h.kind == opSet && d.maxElem != 0 &&
				uint(len(d.keys[h.key])+len(d.vals[h.val])) > d.maxElem {
				in.tooLarge = true
			}
			ops = append(ops, porcupine.Operation{
				ClientId: h.task,
				Input:    in,
				Call:     h.call,
				Output:   regOut{replaced: h.replaced, got: h.got},
				Return:   h.ret,
			})
		}
		switch porcupine.CheckOperationsTimeout(m, ops, 10*time.Second) {
		case porcupine.Illegal:
			msg := fmt.Sprintf("history of key k%d is not linearizable as a register (config kind %d: %+v):\n",
				key, d.cfgKind, confString(d))
			for i := range d.history {
				h := &d.history[i]
				if h.kind != opStats && (h.kind == opClear || h.key == key) {
					msg += fmt.Sprintf("  T%d %s\n", h.task, describe(h))
				}
			}
			rc.Fail("not-linearizable", "register", msg)

			return
		case porcupine.Unknown:
			rc.Inconclusive = "porcupine timeout"
		}
	}
}

func confString(d *runData) string {
	return fmt.Sprintf("lru=%v maxcount=%d maxsize=%d maxelem=%d ondelete=%v",
		d.conf.EnableLRU, d.conf.MaxCount, d.conf.MaxSize, d.conf.MaxElementSize, d.conf.OnDelete != nil)
}

// overlayHooks is set by autoyield_test.go when the check is built with the
// statement-level yield overlay.
var overlayHooks func()

// simsyncHooks is set by simsync_test.go when the check is built with
// simulated mutexes.
var simsyncHooks func()
