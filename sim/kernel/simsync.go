package kernel

import "unsafe"

// Simulated mutexes.  In files compiled through the autoyield overlay with
// -simsync, sync.Mutex, sync.RWMutex and sync.Once are replaced by types whose methods
// call SimSync first.  During a run the lock is then a piece of scheduler
// state: Lock parks the task until the lock is free (a predicate, so nothing
// ever blocks in a way the bubble cannot see), TryLock reads the state, and a
// task may be parked inside a critical section like anywhere else.  Outside a
// run SimSync declines and the real mutex inside the replacement type is used.
//
// For the race detector the simulated lock gives exactly the edges the real one
// gives: an unlock releases, the next lock acquires (writer and reader sides
// of an RWMutex separately, as sync.RWMutex annotates them).

// Operations of SimSync.
const (
	OpLock = iota
	OpUnlock
	OpTryLock
	OpRLock
	OpRUnlock
	OpTryRLock
	OpOnceEnter // ok: the caller has to run the function (and report OpOnceExit)
	OpOnceExit
)

// simMu is the state of a simulated primitive.  It is the first field of the
// replacement types (same layout as simState in the overlay file, see
// tools/autoyield): the state lives and dies with the object - a table keyed
// by address would hand the state of a collected object (a Once that is done)
// to a new one allocated at the same address.  Only the scheduler goroutine
// touches it during a run (in the closures below).
type simMu struct {
	w bool // write-locked

	// A simulated sync.Once: running while the function is being executed,
	// done afterwards.
	running, done bool

	_ bool
	r int32 // read locks held
}

// SimSync is installed into the SimSync variable that the overlay adds to a
// package.  handled is false outside a run (and for an unlock of a lock that
// was not taken through the simulator); ok is the result of a Try operation.
func SimSync(op int, m unsafe.Pointer) (handled, ok bool) {
	k := loadCurrent()
	if k == nil {
		return false, false
	}
	s := (*simMu)(m)
	rd := unsafe.Add(m, 1) // the reader side's synchronisation address
	switch op {
	case OpLock:
		k.park(&note{o: Opts{
			Site: "mutex.Lock",
			Pred: func() bool { return !s.w && s.r == 0 },
			Act:  func() any { s.w = true; return nil },
		}})
		raceAcquire(m)
		raceAcquire(rd)

		return true, true
	case OpTryLock:
		got := k.park(&note{o: Opts{Site: "mutex.TryLock", Act: func() any {
			if s.w || s.r > 0 {
				return false
			}
			s.w = true

			return true
		}}}).(bool)
		if got {
			raceAcquire(m)
			raceAcquire(rd)
		}

		return true, got
	case OpUnlock:
		raceRelease(m)
		h := k.park(&note{o: Opts{Site: "mutex.Unlock", Act: func() any {
			if !s.w {
				return false
			}
			s.w = false

			return true
		}}}).(bool)

		return h, true
	case OpRLock:
		k.park(&note{o: Opts{
			Site: "mutex.RLock",
			Pred: func() bool { return !s.w },
			Act:  func() any { s.r++; return nil },
		}})
		raceAcquire(m)

		return true, true
	case OpTryRLock:
		got := k.park(&note{o: Opts{Site: "mutex.TryRLock", Act: func() any {
			if s.w {
				return false
			}
			s.r++

			return true
		}}}).(bool)
		if got {
			raceAcquire(m)
		}

		return true, got
	case OpRUnlock:
		raceReleaseMerge(rd)
		h := k.park(&note{o: Opts{Site: "mutex.RUnlock", Act: func() any {
			if s.r == 0 {
				return false
			}
			s.r--

			return true
		}}}).(bool)

		return h, true
	case OpOnceEnter:
		run := k.park(&note{o: Opts{
			Site: "once.Do",
			Pred: func() bool { return !s.running },
			Act: func() any {
				if s.done {
					return false
				}
				s.running = true

				return true
			},
		}}).(bool)
		if !run {
			raceAcquire(m)
		}

		return true, run
	case OpOnceExit:
		raceRelease(m)
		k.park(&note{o: Opts{Site: "once.done", Act: func() any {
			s.running, s.done = false, true

			return nil
		}}})

		return true, true
	}

	return false, false
}
