//go:build autoyield

package c10

import (
	"github.com/AdguardTeam/golibs/cache"

	"verif/sim/kernel"
)

// With the autoyield overlay the mutexes of cache/data.go are simulated ones
// (SimSync is added by the overlay, not by the repository), and there is a
// yield before every statement, inside critical sections too.
func init() { overlayHooks = func() { cache.SimSync = kernel.SimSync } }
