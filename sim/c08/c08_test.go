// Package c08 decides property C08: hostsfile.Parse delivers every well-formed
// line exactly once, in order, whatever the reader does, and DefaultStorage
// indexes any history of records consistently.  Real code:
// github.com/AdguardTeam/golibs/hostsfile.  The simulator owns the io.Reader
// handed to Parse (fragmentation, empty reads, EOF forms, injected errors) and
// the history of Add calls.
package c08

import (
	"bufio"
	"bytes"
	"errors"
	"fmt"
	"io"
	"io/fs"
	"net/netip"
	"slices"
	"strings"
	"testing"
	"time"

	"github.com/AdguardTeam/golibs/hostsfile"
	"github.com/AdguardTeam/golibs/netutil"

	"verif/sim/kernel"
)

func TestWorker(t *testing.T) {
	kernel.WorkerMain(t, &kernel.Check{ID: "C08", Run: run})
}

type ctx struct {
	rc      *kernel.RunCtx
	sig     uint64
	log     []string
	nonTriv bool
}

func (c *ctx) logf(format string, a ...any) {
	if c.rc.KeepLog {
		c.log = append(c.log, fmt.Sprintf(format, a...))
	}
}

func run(rc *kernel.RunCtx) {
	c := &ctx{rc: rc, sig: kernel.HashInit}
	func() {
		defer func() {
			if v := recover(); v != nil {
				rc.Fail("panic", "hostsfile", fmt.Sprintf("panic: %v", v))
			}
		}()
		if rc.Tape.Bool(2, 5) {
			runStorage(c)
		} else {
			runParse(c)
		}
	}()
	rc.Log = c.log
	rc.LogHash = c.sig
	rc.Sig = c.sig
	rc.NonTrivial = c.nonTriv
}

// ---- Parse ----

var (
	addrPool = []string{"1.2.3.4", "::1", "fe80::1%eth0", "fe80::1%eth1", "10.0.0.1", "::ffff:1.2.3.4", "0.0.0.0"}
	namePool = []string{"host", "Host", "HOST", "a.b", "A.b", "example.org", "x", "x.y.z", "пример.рф", "xn--e1afmkfd.xn--p1ai", "h-1",
		"XN--E1AFMKFD.example", strings.Repeat("l", 63) + ".example", "a.b.c.d.e.f.g.h", "0start.example", "trail9.x1",
		strings.Repeat("abcdefgh.", 28) + "a"} // 253 bytes
	badNames = []string{"bad!name", "-lead", "a..b", ".", "under_score.", "toolonglabel" + strings.Repeat("x", 60),
		"xn--0.example", "xn--zz", "a.xn--b", "trail-.example", "a.123", strings.Repeat("abcdefgh.", 28) + "ab", // 254 bytes
		strings.Repeat("l", 64) + ".example", "host.", "sp ace"}
	badAddrs = []string{"999.1.1.1", "1.2.3", "nothost", "1.2.3.4.5", ":::1", "fe80::1%"}
	seps     = []string{" ", "\t", "  ", " \t "}
)

func pick(tp *kernel.Tape, pool []string) string { return pool[tp.Choose(len(pool))] }

func genLine(tp *kernel.Tape) string {
	var b strings.Builder
	if tp.Bool(1, 6) {
		b.WriteString(pick(tp, seps))
	}
	switch tp.Choose(12) {
	case 0:
		return "" // blank
	case 1:
		return pick(tp, seps) // whitespace only
	case 2:
		b.WriteString("# comment " + pick(tp, namePool))
	case 3:
		b.WriteString(pick(tp, badAddrs) + pick(tp, seps) + pick(tp, namePool))
	case 4:
		b.WriteString(pick(tp, addrPool)) // single field
	case 5:
		// bad name at a drawn position
		n := tp.Range(1, 3)
		bad := tp.Choose(n)
		b.WriteString(pick(tp, addrPool))
		for i := 0; i < n; i++ {
			b.WriteString(pick(tp, seps))
			if i == bad {
				b.WriteString(pick(tp, badNames))
			} else {
				b.WriteString(pick(tp, namePool))
			}
		}
	case 6:
		// stray CR in the middle
		b.WriteString(pick(tp, addrPool) + " ho\rst")
	case 7:
		if tp.Bool(1, 6) {
			// a long well-formed line (well below bufio.MaxScanTokenSize)
			b.WriteString(pick(tp, addrPool))
			for i := tp.Range(250, 900); i > 0; i-- {
				b.WriteString(" name" + kernel.Itoa(i) + ".example.org")
			}

			break
		}
		b.WriteString(pick(tp, addrPool) + " " + pick(tp, namePool))
	default:
		b.WriteString(pick(tp, addrPool))
		for n := tp.Range(1, 3); n > 0; n-- {
			b.WriteString(pick(tp, seps))
			b.WriteString(pick(tp, namePool))
		}
	}
	if tp.Bool(1, 5) {
		b.WriteString(pick(tp, seps) + "# trailing " + pick(tp, namePool))
	} else if tp.Bool(1, 8) {
		b.WriteString(pick(tp, seps))
	}
	if tp.Bool(1, 12) {
		// White space that is not a hosts(5) field separator, at an edge of
		// the line (what is well formed is still Record.UnmarshalText's
		// verdict on exactly these bytes).
		odd := []string{"\f", "\v", "\u00a0", "\u0085", "\r", "\u2003"}[tp.Choose(6)]
		if tp.Bool(1, 2) {
			return odd + b.String()
		}
		b.WriteString(odd)
	}

	return b.String()
}

// item is one expected or observed delivery.
type item struct {
	add     bool
	addr    netip.Addr
	names   []string
	source  string
	lineNum int
	line    string
	errText string
	srcName string
}

func (it item) String() string {
	if it.add {
		return fmt.Sprintf("Add{%s %q source=%q}", it.addr, it.names, it.source)
	}

	return fmt.Sprintf("Invalid{line %d %q source=%q err=%q}", it.lineNum, it.line, it.srcName, it.errText)
}

func (it item) equal(o item) bool {
	return it.add == o.add && it.addr == o.addr && slices.Equal(it.names, o.names) && it.source == o.source &&
		it.lineNum == o.lineNum && it.line == o.line && it.errText == o.errText && it.srcName == o.srcName
}

// splitLines is the reference definition of a line: LF-separated, one CR
// before the LF (or at the very end) removed, no line after a final LF.
func splitLines(text []byte) (lines [][]byte) {
	segs := bytes.Split(text, []byte{'\n'})
	if len(segs[len(segs)-1]) == 0 {
		segs = segs[:len(segs)-1]
	}
	for _, s := range segs {
		if n := len(s); n > 0 && s[n-1] == '\r' {
			s = s[:n-1]
		}
		lines = append(lines, s)
	}

	return lines
}

// wellFormed is the reference definition of a well-formed line, written from
// the hosts(5) grammar and the documentation of Record.UnmarshalText: what is
// left after removing a comment and trimming spaces and tabs consists of at
// least two fields separated by runs of spaces and tabs; the first one is an IP
// address, all others are valid domain names.
func wellFormed(line []byte) (addr netip.Addr, names []string, ok bool) {
	if i := bytes.IndexByte(line, '#'); i >= 0 {
		line = line[:i]
	}
	fields := strings.FieldsFunc(string(line), func(r rune) bool { return r == ' ' || r == '\t' })
	if len(fields) < 2 {
		return netip.Addr{}, nil, false
	}
	addr, err := netip.ParseAddr(fields[0])
	if err != nil {
		return netip.Addr{}, nil, false
	}
	for _, f := range fields[1:] {
		if netutil.ValidateDomainName(f) != nil {
			return netip.Addr{}, nil, false
		}
	}

	return addr, fields[1:], true
}

// checkVerdicts compares Record.UnmarshalText's verdict on every line with
// the reference definition.
func checkVerdicts(rc *kernel.RunCtx, text []byte) bool {
	for i, line := range splitLines(text) {
		rec := &hostsfile.Record{}
		err := rec.UnmarshalText(line)
		addr, names, ok := wellFormed(line)
		switch {
		case ok != (err == nil):
			rc.Fail("well-formedness", "Record.UnmarshalText", fmt.Sprintf(
				"line %d %q: UnmarshalText returned %v, by the grammar the line is well formed: %v", i+1, line, err, ok))
		case ok && (rec.Addr != addr || !slices.Equal(rec.Names, names)):
			rc.Fail("well-formedness", "Record.UnmarshalText", fmt.Sprintf(
				"line %d %q: UnmarshalText gives %s %q, by the grammar the record is %s %q", i+1, line, rec.Addr, rec.Names, addr, names))
		default:
			continue
		}

		return false
	}

	return true
}

func expect(text []byte, srcName string) (items []item) {
	for i, line := range splitLines(text) {
		rec := &hostsfile.Record{}
		err := rec.UnmarshalText(line)
		if err != nil {
			items = append(items, item{lineNum: i + 1, line: string(line), errText: err.Error(), srcName: srcName})
		} else {
			items = append(items, item{add: true, addr: rec.Addr, names: rec.Names, source: srcName})
		}
	}

	return items
}

// plainSet is a Set; handleSet adds HandleInvalid.
type plainSet struct {
	items []item

	// nested, if set, is called by Add (a destination that reads a further
	// source while it is being filled).
	nested func()
}

func (s *plainSet) Add(rec *hostsfile.Record) {
	s.items = append(s.items, item{add: true, addr: rec.Addr, names: slices.Clone(rec.Names), source: rec.Source})
	if s.nested != nil {
		s.nested()
	}
}

type handleSet struct {
	plainSet

	// kept are the error values as they were handed over: a handler may keep
	// them and look at them later.
	kept []error
}

func (s *handleSet) HandleInvalid(srcName string, data []byte, err error) {
	s.kept = append(s.kept, err)
	it := item{line: string(data), srcName: srcName, lineNum: -1}
	var le *hostsfile.LineError
	if errors.As(err, &le) {
		it.lineNum = le.Line
		if u := le.Unwrap(); u != nil {
			it.errText = u.Error()
		}
	} else {
		it.errText = "not a *LineError: " + fmt.Sprint(err)
	}
	s.items = append(s.items, it)
}

type namedReader struct {
	*kernel.SimReader
	name string
}

func (r namedReader) Name() string { return r.name }

// statReader is a source with a Stat method; size < 0 makes Stat fail.
type statReader struct {
	*kernel.SimReader
	size int64
}

type fileInfo struct{ size int64 }

func (fi fileInfo) Name() string       { return "hosts" }
func (fi fileInfo) Size() int64        { return fi.size }
func (fi fileInfo) Mode() fs.FileMode  { return 0o644 }
func (fi fileInfo) ModTime() time.Time { return time.Time{} }
func (fi fileInfo) IsDir() bool        { return false }
func (fi fileInfo) Sys() any           { return nil }

func (r statReader) Stat() (fs.FileInfo, error) {
	if r.size < 0 {
		return nil, errors.New("stat: not supported")
	}

	return fileInfo{size: r.size}, nil
}

// lineErrors collects the *LineError values in a (joined, wrapped) error.
func lineErrors(err error, out *[]*hostsfile.LineError) {
	if err == nil {
		return
	}
	if le, ok := err.(*hostsfile.LineError); ok {
		*out = append(*out, le)

		return
	}
	switch x := err.(type) {
	case interface{ Unwrap() []error }:
		for _, e := range x.Unwrap() {
			lineErrors(e, out)
		}
	case interface{ Unwrap() error }:
		lineErrors(x.Unwrap(), out)
	}
}

func runParse(c *ctx) {
	tp, rc := c.rc.Tape, c.rc
	nLines := tp.Range(0, 8)
	var text []byte
	if tp.Bool(1, 12) {
		// A byte order mark is not part of the hosts(5) grammar: whatever
		// Record.UnmarshalText says about the first line with it stands.
		text = append(text, 0xEF, 0xBB, 0xBF)
		rc.Stats.Probe("bom-prefix")
	}
	large := false
	if tp.Bool(1, 8000) {
		// A large source (1-18 MiB) in front of the drawn lines.
		large = true
		rc.Stats.Probe("large-source")
		target := tp.Range(1, 18) << 20
		line := []byte("10.1.2.3 bulk.example.org another.example.org\n")
		text = bytes.Repeat(line, target/len(line)+1)
	}
	crlf := tp.Choose(3) // 0 LF, 1 CRLF, 2 mixed
	for i := 0; i < nLines; i++ {
		text = append(text, genLine(tp)...)
		last := i == nLines-1
		if last && tp.Bool(1, 3) {
			// missing final newline (sometimes a lone CR at the very end)
			if tp.Bool(1, 6) {
				text = append(text, '\r')
			}

			break
		}
		if crlf == 1 || (crlf == 2 && tp.Bool(1, 2)) {
			text = append(text, '\r')
		}
		text = append(text, '\n')
	}

	srcName := ""
	named := tp.Bool(1, 2)
	if named {
		srcName = []string{"hosts-0", "hosts-1", "/etc/hosts", "dir/sub/hosts", "trailing/", "C:\\Windows\\hosts"}[tp.Choose(6)]
	}
	useHandle := tp.Bool(1, 2)
	withErr := tp.Bool(1, 4)
	var buf []byte
	switch tp.Choose(3) {
	case 1:
		buf = make([]byte, 16)
	case 2:
		buf = make([]byte, 0, 64)
	}
	sr := kernel.NewSimReader(tp, rc.Stats, text, withErr)
	if large {
		// Keep a large run short: big chunks, no empty reads.
		sr.MaxChunk = max(sr.MaxChunk, 64<<10)
		sr.ZeroReads = false
	}
	var src io.Reader = sr
	srcKind := "sim"
	switch {
	case named:
		src = namedReader{SimReader: sr, name: srcName}
	case tp.Bool(1, 4):
		// The simulated reader behind one of the standard library's readers,
		// or (fault free) a standard in-memory reader: the concrete types
		// sources have in practice.
		switch k := tp.Choose(6); {
		case k == 5:
			// A source that can be asked for its size, as an *os.File can, and
			// whose answer says little about what it will deliver (pipes,
			// /proc files and files that grow report 0 or a stale size).
			srcKind = "stat"
			src = statReader{SimReader: sr, size: []int64{0, int64(len(text)), int64(len(text) / 2), 1 << 40, -1}[tp.Choose(5)]}
		case k <= 1:
			srcKind = "bufio"
			src = bufio.NewReaderSize(sr, []int{16, 64, 4096}[tp.Choose(3)])
		case k == 2 && !withErr:
			srcKind = "bytes.Reader"
			src = bytes.NewReader(text)
		case k == 3 && !withErr:
			srcKind = "strings.Reader"
			src = strings.NewReader(string(text))
		case k == 4 && !withErr:
			srcKind = "bytes.Buffer"
			src = bytes.NewBuffer(bytes.Clone(text))
		}
		rc.Stats.Probe("source-type-" + srcKind)
	}
	c.logf("parse: %d lines %q named=%v handleSet=%v withErr=%v(at %d) buf=%d chunk=%d src=%s", nLines, text, named, useHandle, withErr, sr.ErrAt, cap(buf), sr.MaxChunk, srcKind)
	c.sig = kernel.HashBytes(c.sig, text)
	c.sig = kernel.HashBytes(c.sig, []byte(fmt.Sprint(named, useHandle, withErr, cap(buf))))

	if !large && !checkVerdicts(rc, text) {
		return
	}
	want := expect(text, srcName)

	// The destination may itself parse another source from inside Add, with
	// the same buffer argument (nil in particular).
	var nested func()
	if !large && tp.Bool(1, 8) {
		rc.Stats.Probe("parse-reentered-from-add")
		inner := []byte("10.9.8.7 nested.example nested2.example\n10.9.8.6 other.example\n")
		nestedBuf := buf
		if nestedBuf != nil {
			nestedBuf = make([]byte, len(buf), cap(buf))
		}
		nested = func() {
			ns := &plainSet{}
			if nerr := hostsfile.Parse(ns, bytes.NewReader(inner), nestedBuf); nerr != nil || len(ns.items) != 2 ||
				ns.items[0].names[0] != "nested.example" || ns.items[1].names[0] != "other.example" {
				rc.Fail("deliveries", "Parse", fmt.Sprintf("a Parse started from inside Set.Add delivered %v (error %v)", ns.items, nerr))
			}
		}
	}
	var got []item
	var err error
	var kept []error
	if useHandle {
		hs := &handleSet{}
		hs.nested = nested
		err = hostsfile.Parse(hs, src, buf)
		got = hs.items
		kept = hs.kept
	} else {
		ps := &plainSet{nested: nested}
		err = hostsfile.Parse(ps, src, buf)
		got = ps.items
	}
	if rc.Violation != nil {
		return
	}
	// The error values handed to HandleInvalid, looked at again after Parse
	// has returned: each still names its own line.
	var keptLines, gotLines []int
	for _, e := range kept {
		var le *hostsfile.LineError
		if errors.As(e, &le) {
			keptLines = append(keptLines, le.Line)
		}
	}
	for _, it := range got {
		if !it.add && it.lineNum >= 0 {
			gotLines = append(gotLines, it.lineNum)
		}
	}
	if useHandle && !slices.Equal(keptLines, gotLines) {
		rc.Fail("line-error-reused", "Parse", fmt.Sprintf(
			"the errors handed to HandleInvalid named lines %v when they were delivered and name lines %v after Parse has returned", gotLines, keptLines))

		return
	}
	for _, rcall := range sr.Calls {
		c.sig = kernel.HashBytes(c.sig, []byte{byte(rcall.Buf), byte(rcall.N), boolByte(rcall.Err != nil)})
	}
	dataReads := 0
	for _, rcall := range sr.Calls {
		if rcall.N > 0 {
			dataReads++
		}
	}
	c.nonTriv = nLines >= 1 && (dataReads >= 2 || (srcKind != "sim" && srcKind != "bufio" && srcKind != "stat"))
	c.logf("reader calls: %d (%d with data); Parse error: %v", len(sr.Calls), dataReads, err)
	for _, it := range got {
		c.logf("  got %s", it)
	}
	rc.Steps = int64(len(sr.Calls))

	sawReadErr := false
	for _, rcall := range sr.Calls {
		if rcall.Err != nil && errors.Is(rcall.Err, kernel.ErrInjected) {
			sawReadErr = true
		}
	}

	if sawReadErr {
		// Separate fault configuration: deliveries must be a prefix of the
		// expectation plus at most one item from the torn tail, and Parse
		// must report the read error.
		rc.Stats.Probe("parse-with-read-error")
		if !errors.Is(err, kernel.ErrInjected) {
			rc.Fail("read-error-lost", "Parse", fmt.Sprintf("reader failed with %v but Parse returned %v", kernel.ErrInjected, err))

			return
		}
		wantAdds, wantAll := onlyAdds(want), want
		if useHandle {
			checkPrefix(rc, "Parse", got, wantAll, text)
		} else {
			checkPrefix(rc, "Parse", got, wantAdds, text)
		}

		return
	}

	if useHandle {
		if !equalItems(got, want) {
			rc.Fail("deliveries", "Parse", diff("HandleSet deliveries differ from the expectation", got, want, text, sr))

			return
		}
		if err != nil {
			rc.Fail("error", "Parse", fmt.Sprintf("Parse into a HandleSet returned %v although the reader did not fail", err))
		}

		return
	}

	if !equalItems(got, onlyAdds(want)) {
		rc.Fail("deliveries", "Parse", diff("Set deliveries differ from the expectation", got, onlyAdds(want), text, sr))

		return
	}
	var les []*hostsfile.LineError
	lineErrors(err, &les)
	var gotInv []item
	for _, le := range les {
		it := item{lineNum: le.Line}
		if u := le.Unwrap(); u != nil {
			it.errText = u.Error()
		}
		gotInv = append(gotInv, it)
	}
	var wantInv []item
	for _, it := range want {
		if !it.add {
			wantInv = append(wantInv, item{lineNum: it.lineNum, errText: it.errText})
		}
	}
	if !equalItems(gotInv, wantInv) {
		rc.Fail("joined-error", "Parse", diff("line errors joined in the returned error differ from the expectation", gotInv, wantInv, text, sr))

		return
	}
	if (err == nil) != (len(wantInv) == 0) {
		rc.Fail("error", "Parse", fmt.Sprintf("Parse returned %v with %d invalid lines", err, len(wantInv)))
	}
}

func boolByte(b bool) byte {
	if b {
		return 1
	}

	return 0
}

func onlyAdds(items []item) (adds []item) {
	for _, it := range items {
		if it.add {
			adds = append(adds, it)
		}
	}

	return adds
}

func equalItems(a, b []item) bool {
	return slices.EqualFunc(a, b, item.equal)
}

func checkPrefix(rc *kernel.RunCtx, site string, got, want []item, text []byte) {
	n := 0
	for n < len(got) && n < len(want) && got[n].equal(want[n]) {
		n++
	}
	if len(got)-n > 1 {
		rc.Fail("deliveries-after-read-error", site, fmt.Sprintf(
			"after a read error the deliveries are not a prefix of the expectation plus at most one torn item:\n text %q\n got  %v\n want prefix of %v", text, got, want))
	}
}

func diff(msg string, got, want []item, text []byte, sr *kernel.SimReader) string {
	var b strings.Builder
	fmt.Fprintf(&b, "%s\n text: %q\n reads:", msg, text)
	for _, rcall := range sr.Calls {
		fmt.Fprintf(&b, " [buf %d -> %d,%v]", rcall.Buf, rcall.N, rcall.Err)
	}
	b.WriteString("\n got:\n")
	for _, it := range got {
		fmt.Fprintf(&b, "   %s\n", it)
	}
	b.WriteString(" want:\n")
	for _, it := range want {
		fmt.Fprintf(&b, "   %s\n", it)
	}

	return b.String()
}

// ---- DefaultStorage ----

type storageModel struct {
	names     map[netip.Addr][]string // original case, first seen
	namesSeen map[netip.Addr]map[string]bool
	addrs     map[string][]netip.Addr // key: lower-cased name
	addrsSeen map[string]map[netip.Addr]bool
}

func newStorageModel() *storageModel {
	return &storageModel{
		names:     map[netip.Addr][]string{},
		namesSeen: map[netip.Addr]map[string]bool{},
		addrs:     map[string][]netip.Addr{},
		addrsSeen: map[string]map[netip.Addr]bool{},
	}
}

func (m *storageModel) add(addr netip.Addr, names []string) {
	for _, n := range names {
		l := strings.ToLower(n)
		if m.namesSeen[addr] == nil {
			m.namesSeen[addr] = map[string]bool{}
		}
		if !m.namesSeen[addr][l] {
			m.namesSeen[addr][l] = true
			m.names[addr] = append(m.names[addr], n)
		}
		if m.addrsSeen[l] == nil {
			m.addrsSeen[l] = map[netip.Addr]bool{}
		}
		if !m.addrsSeen[l][addr] {
			m.addrsSeen[l][addr] = true
			m.addrs[l] = append(m.addrs[l], addr)
		}
	}
}

var (
	stAddrs = []string{"1.2.3.4", "::1", "fe80::1%eth0", "fe80::1%eth1", "::ffff:1.2.3.4", "fe80::1", "0.0.0.0", "::"}
	stNames = []string{"host", "Host", "HOST", "a.b", "A.B", "x", "X", "long.example.org", "почта.lan", "ПОЧТА.lan", "äöü.lan", "ÄÖÜ.lan"}
)

// freeNames are names that no hosts file can contain but a record added
// directly can.
var freeNames = []string{
	strings.Repeat("a", 300), strings.Repeat("a", 253), strings.Repeat("a", 254), strings.Repeat("long-label.", 30) + "example",
	"with space", "under_score", "Mixed_Case.And.Dot.", "tab\tname", "host", "#hash", "1.2.3.4",
}

// widePools returns address and name pools that are large enough for one name
// to collect dozens of addresses and one address dozens of names.
func widePools() (addrs, names []string) {
	for i := 1; i <= 40; i++ {
		addrs = append(addrs, "10.0.0."+kernel.Itoa(i))
		names = append(names, "n"+kernel.Itoa(i)+".example")
	}

	return addrs, names
}

// foldNames are names with letters whose lower-case forms differ although
// Unicode case folding makes them equal (sigma and final sigma, s and long s,
// k and the Kelvin sign, theta and the theta symbol).  "Case-insensitively" can
// be read as comparison of lower-cased names (what the tree does) or as case
// folding; histories over these names are therefore judged by the clauses
// that hold under both readings, see runFoldStorage.
var foldNames = []string{"σ.lan", "ς.lan", "Σ.lan", "s.lan", "ſ.lan", "S.lan", "k.lan", "\u212a.lan", "K.lan", "θ.lan", "ϑ.lan", "Θ.lan"}

// runFoldStorage: short Add histories over foldNames.  Whatever the reading
// of "case-insensitively", after every Add: ByName of a name exactly as it
// was added answers with (at least) the addresses it was added for; ByAddr
// lists, for every name added for the address, that name or one equal to it
// under case folding; nothing is listed that was not added; no answer
// contains the same value twice.
func runFoldStorage(c *ctx) {
	tp, rc := c.rc.Tape, c.rc
	rc.Stats.Probe("fold-orbit-names")
	s, err := hostsfile.NewDefaultStorage()
	if err != nil {
		rc.Fail("error", "NewDefaultStorage", err.Error())

		return
	}
	nAddrs := tp.Range(1, 3)
	added := map[netip.Addr][]string{}
	nOps := tp.Range(1, 8)
	// Few distinct orbits per history, so that members of one orbit meet.
	base := 3 * tp.Choose(len(foldNames)/3)
	for i := 0; i < nOps; i++ {
		addr := netip.MustParseAddr(stAddrs[tp.Choose(nAddrs)])
		var names []string
		for nn := tp.Range(1, 3); nn > 0; nn-- {
			if tp.Bool(1, 5) {
				names = append(names, foldNames[tp.Choose(len(foldNames))])
			} else {
				names = append(names, foldNames[base+tp.Choose(3)])
			}
		}
		s.Add(&hostsfile.Record{Addr: addr, Names: slices.Clone(names), Source: "src"})
		added[addr] = append(added[addr], names...)
		c.logf("Add(%s %q)", addr, names)
		c.sig = kernel.HashBytes(c.sig, []byte(fmt.Sprint("F", addr, names)))
		rc.Steps++

		for a, ns := range added {
			listed := s.ByAddr(a)
			for j, x := range listed {
				if !slices.Contains(ns, x) {
					rc.Fail("by-addr", "DefaultStorage.ByAddr", fmt.Sprintf("ByAddr(%s) lists %q, which was never added for it (added: %q)", a, x, ns))

					return
				}
				if slices.ContainsFunc(listed[:j], func(y string) bool { return strings.ToLower(y) == strings.ToLower(x) }) {
					rc.Fail("by-addr", "DefaultStorage.ByAddr", fmt.Sprintf("ByAddr(%s) = %q lists one name twice", a, listed))

					return
				}
			}
			for _, n := range ns {
				if !slices.ContainsFunc(listed, func(x string) bool { return strings.EqualFold(x, n) }) {
					rc.Fail("by-addr", "DefaultStorage.ByAddr", fmt.Sprintf("ByAddr(%s) = %q lists neither %q, which was added for it, nor a name equal to it under case folding", a, listed, n))

					return
				}
				got := s.ByName(n)
				if !slices.Contains(got, a) {
					rc.Fail("by-name", "DefaultStorage.ByName", fmt.Sprintf("ByName(%q) = %v lacks %s although a record with exactly that name was added for it", n, got, a))

					return
				}
			}
		}
		for _, n := range foldNames {
			got := s.ByName(n)
			for j, a := range got {
				if slices.Contains(got[:j], a) {
					rc.Fail("by-name", "DefaultStorage.ByName", fmt.Sprintf("ByName(%q) = %v lists one address twice", n, got))

					return
				}
				if !slices.ContainsFunc(added[a], func(x string) bool { return strings.EqualFold(x, n) }) {
					rc.Fail("by-name", "DefaultStorage.ByName", fmt.Sprintf("ByName(%q) lists %s, for which no name equal to it under case folding was added (added: %q)", n, a, added[a]))

					return
				}
			}
		}
	}
	c.nonTriv = nOps >= 2
}

func runStorage(c *ctx) {
	tp, rc := c.rc.Tape, c.rc
	if tp.Bool(1, 16) {
		runFoldStorage(c)

		return
	}
	stAddrs, stNames := stAddrs, stNames
	maxOps := 14
	if tp.Bool(1, 8) {
		// Wide histories: many addresses per name and names per address.
		stAddrs, stNames = widePools()
		maxOps = 90
		rc.Stats.Probe("wide-storage-history")
	}
	freeForm := maxOps == 14 && tp.Bool(1, 6)
	if freeForm {
		// "Any sequence of records": Add does not validate names.
		stNames = freeNames
		rc.Stats.Probe("free-form-names")
	}
	s, err := hostsfile.NewDefaultStorage()
	if err != nil {
		rc.Fail("error", "NewDefaultStorage", err.Error())

		return
	}
	twin, _ := hostsfile.NewDefaultStorage()
	m := newStorageModel()
	nAddrs := tp.Range(1, len(stAddrs))
	nNames := tp.Range(1, len(stNames))
	nOps := tp.Range(1, maxOps)
	if maxOps > 14 {
		// Concentrate on few names (or few addresses) so that one of them
		// collects many values.
		if tp.Bool(1, 2) {
			nNames = tp.Range(1, 2)
		} else {
			nAddrs = tp.Range(1, 2)
		}
	}
	c.logf("storage: %d addrs %d names %d adds", nAddrs, nNames, nOps)
	c.sig = kernel.HashBytes(c.sig, []byte{'S', byte(nAddrs), byte(nNames)})
	var history []*hostsfile.Record

	for i := 0; i < nOps; i++ {
		addr := netip.MustParseAddr(stAddrs[tp.Choose(nAddrs)])
		var names []string
		nn := tp.Choose(4)
		if nn == 0 && tp.Bool(1, 2) {
			names = []string{} // empty but not nil, as UnmarshalText leaves it
		}
		for ; nn > 0; nn-- {
			names = append(names, stNames[tp.Choose(nNames)])
		}
		rec := &hostsfile.Record{Addr: addr, Names: names, Source: "src"}
		history = append(history, rec)
		if len(names) == 0 {
			rc.Stats.Probe("add-without-names")
		}
		given := slices.Clone(names)
		s.Add(&hostsfile.Record{Addr: addr, Names: given, Source: "src"})
		if !slices.Equal(given, names) {
			rc.Fail("record-modified", "DefaultStorage.Add", fmt.Sprintf("Add changed the Names of the record it was given from %q to %q", names, given))

			return
		}
		m.add(addr, names)
		c.logf("Add(%s %q)", addr, names)
		c.sig = kernel.HashBytes(c.sig, []byte(fmt.Sprint(addr, names)))
		rc.Steps++

		// The twin gets a model-equivalent history: the same record, with
		// records without names and repetitions of earlier records mixed in.
		if tp.Bool(1, 3) {
			twin.Add(&hostsfile.Record{Addr: netip.MustParseAddr(stAddrs[tp.Choose(len(stAddrs))]), Source: "other"})
		}
		twin.Add(&hostsfile.Record{Addr: addr, Names: slices.Clone(names), Source: "twin"})
		if tp.Bool(1, 3) {
			old := history[tp.Choose(len(history))]
			twin.Add(&hostsfile.Record{Addr: old.Addr, Names: slices.Clone(old.Names), Source: "again"})
		}

		if maxOps > 14 && i%8 != 7 && i != nOps-1 {
			// Wide histories are checked at every eighth step and at the end
			// (a full check is quadratic in the pool sizes).
			continue
		}
		if !checkStorage(c, s, m, "storage", stAddrs, stNames) || !checkStorage(c, twin, m, "twin storage", stAddrs, stNames) {
			return
		}
		if !s.Equal(twin) || !twin.Equal(s) {
			rc.Fail("equal", "DefaultStorage.Equal", fmt.Sprintf(
				"storages fed model-equivalent histories (records without names and repeated records added to one of them) are not Equal after %d adds", i+1))

			return
		}
	}
	c.nonTriv = nOps >= 2

	// A storage with one more association must differ.
	other, _ := hostsfile.NewDefaultStorage()
	for _, rec := range history {
		other.Add(&hostsfile.Record{Addr: rec.Addr, Names: slices.Clone(rec.Names)})
	}
	extra := &hostsfile.Record{Addr: netip.MustParseAddr(stAddrs[tp.Choose(nAddrs)]), Names: []string{"brand.new.name"}}
	other.Add(extra)
	if s.Equal(other) || other.Equal(s) {
		rc.Fail("equal", "DefaultStorage.Equal", "storages that differ in one name are reported Equal")

		return
	}

	if freeForm {
		return
	}

	// End to end: Parse into a DefaultStorage through the faulty reader
	// equals Parse through one read.
	var text []byte
	for _, rec := range history {
		if len(rec.Names) == 0 {
			text = append(text, (rec.Addr.String() + "\n")...)

			continue
		}
		text = append(text, (rec.Addr.String() + " " + strings.Join(rec.Names, " ") + "\n")...)
	}
	whole, err1 := hostsfile.NewDefaultStorage(bytes.NewReader(text))
	// NewDefaultStorage takes any number of sources: the text is cut at line
	// boundaries into 1-3 of them, and a source that is not the last may lack
	// its final newline.
	var parts [][]byte
	rest := text
	for nParts := tp.Range(1, 3); nParts > 1 && len(rest) > 0; nParts-- {
		lines := bytes.SplitAfter(rest, []byte{'\n'})
		cut := 0
		for _, l := range lines[:tp.Choose(len(lines))] {
			cut += len(l)
		}
		part := rest[:cut]
		rest = rest[cut:]
		if len(part) > 0 && tp.Bool(1, 2) {
			part = part[:len(part)-1]
		}
		parts = append(parts, part)
	}
	parts = append(parts, rest)
	var readers []io.Reader
	for _, part := range parts {
		readers = append(readers, kernel.NewSimReader(tp, rc.Stats, part, false))
	}
	if len(readers) > 1 {
		rc.Stats.Probe("storage-from-several-sources")
	}
	frag, err2 := hostsfile.NewDefaultStorage(readers...)
	if err1 != nil || err2 != nil || !whole.Equal(frag) || !frag.Equal(s) {
		rc.Fail("end-to-end", "NewDefaultStorage", fmt.Sprintf(
			"parsing %q through a fragmenting reader and through one read give different storages (errors %v / %v)", text, err1, err2))

		return
	}
	checkStorage(c, frag, m, "parsed storage", stAddrs, stNames)
}

func checkStorage(c *ctx, s *hostsfile.DefaultStorage, m *storageModel, what string, stAddrs, stNames []string) bool {
	rc := c.rc
	for _, as := range stAddrs {
		addr := netip.MustParseAddr(as)
		got := s.ByAddr(addr)
		if !slices.Equal(got, m.names[addr]) {
			rc.Fail("by-addr", "DefaultStorage.ByAddr", fmt.Sprintf("%s: ByAddr(%s) = %q, want %q", what, addr, got, m.names[addr]))

			return false
		}
	}
	for _, n := range stNames {
		want := m.addrs[strings.ToLower(n)]
		for _, variant := range []string{n, strings.ToUpper(n), strings.ToLower(n)} {
			got := s.ByName(variant)
			if !slices.Equal(got, want) {
				rc.Fail("by-name", "DefaultStorage.ByName", fmt.Sprintf("%s: ByName(%q) = %v, want %v", what, variant, got, want))

				return false
			}
		}
		// The two indexes agree.
		for _, as := range stAddrs {
			addr := netip.MustParseAddr(as)
			inNames := slices.ContainsFunc(s.ByAddr(addr), func(x string) bool { return strings.EqualFold(x, n) })
			inAddrs := slices.Contains(s.ByName(n), addr)
			if inNames != inAddrs {
				rc.Fail("index-disagreement", "DefaultStorage", fmt.Sprintf(
					"%s: name %q is listed for %s: %v, but address is listed for the name: %v", what, n, addr, inNames, inAddrs))

				return false
			}
		}
	}
	gotNames := map[netip.Addr][]string{}
	dup := false
	s.RangeNames(func(addr netip.Addr, names []string) bool {
		if _, ok := gotNames[addr]; ok {
			dup = true
		}
		gotNames[addr] = names

		return true
	})
	if dup || len(gotNames) != len(m.names) {
		rc.Fail("range-names", "DefaultStorage.RangeNames", fmt.Sprintf(
			"%s: RangeNames visits %d addresses %v, the model has %d %v", what, len(gotNames), gotNames, len(m.names), m.names))

		return false
	}
	for a, ns := range m.names {
		if !slices.Equal(gotNames[a], ns) {
			rc.Fail("range-names", "DefaultStorage.RangeNames", fmt.Sprintf("%s: RangeNames gives %q for %s, want %q", what, gotNames[a], a, ns))

			return false
		}
	}
	gotAddrs := map[string][]netip.Addr{}
	s.RangeAddrs(func(host string, addrs []netip.Addr) bool {
		if _, ok := gotAddrs[host]; ok {
			dup = true
		}
		gotAddrs[host] = addrs

		return true
	})
	if dup || len(gotAddrs) != len(m.addrs) {
		rc.Fail("range-addrs", "DefaultStorage.RangeAddrs", fmt.Sprintf(
			"%s: RangeAddrs visits %d names %v, the model has %d %v", what, len(gotAddrs), gotAddrs, len(m.addrs), m.addrs))

		return false
	}
	for n, as := range m.addrs {
		if !slices.Equal(gotAddrs[n], as) {
			rc.Fail("range-addrs", "DefaultStorage.RangeAddrs", fmt.Sprintf("%s: RangeAddrs gives %v for %q, want %v", what, gotAddrs[n], n, as))

			return false
		}
	}
	// Early termination of the range callbacks.
	calls := 0
	s.RangeNames(func(netip.Addr, []string) bool { calls++; return false })
	if calls > 1 {
		rc.Fail("range-names", "DefaultStorage.RangeNames", "RangeNames continues after the callback returned false")

		return false
	}
	calls = 0
	s.RangeAddrs(func(string, []netip.Addr) bool { calls++; return false })
	if calls > 1 {
		rc.Fail("range-addrs", "DefaultStorage.RangeAddrs", "RangeAddrs continues after the callback returned false")

		return false
	}

	return true
}
