//go:build simsync

package c20

import (
	"github.com/AdguardTeam/golibs/netutil/httputil"

	"verif/sim/kernel"
)

// Built with the -simsync overlay: sync.Mutex, sync.RWMutex and sync.Once in
// the instrumented files of the package are simulated primitives (SimSync is
// added by the overlay, not by the repository).
func init() { simsyncHooks = func() { httputil.SimSync = kernel.SimSync } }
