#!/usr/bin/env python3
"""Self-test of the race oracle (sim/canary): correctly synchronised modes must never be reported, unsynchronised
modes must be reported whenever both accesses happened - also when the tasks ran strictly one after the other."""
import json, os, subprocess, sys, tempfile, shutil
sys.path.insert(0, os.path.dirname(os.path.dirname(os.path.abspath(__file__))))
import run as drv
cfg = dict(pkg="./sim/canary", race=True)
tmp = tempfile.mkdtemp(prefix="verif-canary-")
try:
    binary = drv.build("CANARY", cfg, "/repo", tmp)
    if not binary:
        sys.exit(2)
    N = 10000
    extra = dict(VERIF_MODE="explore", VERIF_SEED="3", VERIF_FROM="0", VERIF_TO=str(N), VERIF_STRIDE="1", VERIF_RECHECK="0",
                 VERIF_KNOWN="race@no-golibs-frame", VERIF_HASHFILE=os.path.join(tmp, "hashes"))
    p, errf = drv.start_worker(binary, cfg, tmp, "c", extra)
    p.wait(); errf.close()
    res = drv.read_result(tmp, "c")
    if res is None or res.get("harness_error"):
        print("canary worker failed:", res and res["harness_error"], drv.tail(os.path.join(tmp, "c.stderr"))[-2000:]); sys.exit(2)
    # per-run verdicts by mode (column 3 of the hash file is the mode)
    by_mode = {}
    for l in open(os.path.join(tmp, "hashes")):
        f = l.split()
        mode = int(f[2], 16)
        st = by_mode.setdefault(mode, [0, 0])
        st[0] += 1
        st[1] += 0 if f[4] == "-" else 1
    names = {0: "mutex (yield inside the critical section)", 1: "unsynchronised", 2: "channel hand-over", 3: "unsynchronised, tasks strictly sequential",
             4: "simulated pool hand-over", 5: "use after Put into the simulated pool",
             6: "simulated mutex (yield inside the critical section)", 7: "simulated mutex, one task skips it",
             8: "simulated RWMutex, writer and readers", 9: "simulated RWMutex, a reader writes under RLock"}
    ok = True
    for mode in sorted(by_mode):
        runs, reported = by_mode[mode]
        print("  mode %d %-45s runs %5d  race reported in %5d" % (mode, names.get(mode, "?"), runs, reported))
        if mode in (0, 2, 4, 6, 8) and reported != 0:
            ok = False
        if mode in (1, 3, 7) and reported != runs:
            ok = False
        # (mode 9: a writer that gets the lock between the two readers orders them, as with a real RWMutex)
        if mode in (5, 9) and reported < runs // 2:
            ok = False
    print("violation other than the expected class:", res.get("violation"))
    ok = ok and res.get("violation") is None
    print("CANARY", "OK" if ok else "FAILED")
    sys.exit(0 if ok else 1)
finally:
    shutil.rmtree(tmp, ignore_errors=True)
