// Package c18 decides property C18: SignalHandler shuts every service down in
// reverse order across errors and panics, and RefreshWorker runs a faithful
// refresh loop.  Real code: github.com/AdguardTeam/golibs/service.  The
// simulator owns signal delivery, service outcomes, the clock, the schedule,
// the refresher, the error handler and the context constructor (all of them
// interfaces the code already takes), and which goroutine runs next.
package c18

import (
	"context"
	"errors"

	"fmt"
	agerrors "github.com/AdguardTeam/golibs/errors"
	"log/slog"
	"os"
	"runtime/debug"
	"slices"
	"syscall"
	"testing"
	"time"

	"github.com/AdguardTeam/golibs/logutil/slogutil"
	"github.com/AdguardTeam/golibs/osutil"
	"github.com/AdguardTeam/golibs/service"

	"verif/sim/kernel"
)

func TestWorker(t *testing.T) {
	kernel.WorkerMain(t, &kernel.Check{
		ID:     "C18",
		Bubble: true,
		Setup:  func() { installHooks() },
		Run:    run,
	})
}

func run(rc *kernel.RunCtx) {
	k := kernel.NewKernel(rc.Tape)
	k.KeepLog = rc.KeepLog
	if rc.Tape.Bool(2, 5) {
		runSignal(rc, k)
	} else {
		runRefresh(rc, k)
	}
}

func btoa(b bool) string {
	if b {
		return "1"
	}

	return "0"
}

// ---- SignalHandler ----

// refShutdownSignal is the harness's own statement of which signals ask for
// a shutdown on Unix (SIGINT, SIGQUIT, SIGTERM, as documented for
// osutil.IsShutdownSignal and registered by osutil's notifier helpers); the
// library's classifier is code under test and is not consulted by the oracle.
func refShutdownSignal(sig os.Signal) bool {
	return sig == os.Signal(syscall.SIGINT) || sig == os.Signal(syscall.SIGQUIT) || sig == os.Signal(syscall.SIGTERM)
}

type customSignal struct{}

func (customSignal) String() string { return "custom" }
func (customSignal) Signal()        {}

type notifier struct {
	ch   chan<- os.Signal
	sigs []os.Signal
}

// Notify: as with os/signal, repeated calls for one channel widen its set.
func (n *notifier) Notify(c chan<- os.Signal, sig ...os.Signal) {
	n.ch, n.sigs = c, append(n.sigs, sig...)
}
func (n *notifier) Stop(chan<- os.Signal) {}

const (
	outNil = iota
	outErr
	outPanic
	outPanicErr
	outPanicRuntime
	outPanicNil
)

type svc struct {
	k       *kernel.Kernel
	idx     int
	outcome int
	slow    int
	expire  bool // lets the shutdown timeout expire while it runs
	timeout time.Duration
	calls   *[]int // scheduler-side: indices in call order
}

func (s *svc) Start(context.Context) error { return nil }

func (s *svc) Shutdown(ctx context.Context) error {
	k := s.k
	k.Ask("svc.shutdown", func() any {
		*s.calls = append(*s.calls, s.idx)
		k.Logf("  Shutdown(service ", kernel.Itoa(s.idx), ")")

		return nil
	})
	for i := 0; i < s.slow; i++ {
		k.Yield("svc.slow")
	}
	if s.expire {
		// The environment lets simulated time pass beyond the shutdown
		// timeout (the scheduler goroutine sleeps in the bubble's fake time).
		k.Ask("svc.expire-timeout", func() any { time.Sleep(s.timeout + time.Second); return nil })
	}
	switch s.outcome {
	case outErr:
		// A non-nil error of some kind: plain, joined, or one that golibs'
		// own errors package marks as coming from a deferred cleanup.
		switch s.idx % 3 {
		case 1:
			return errors.Join(fmt.Errorf("service %d failed", s.idx), fmt.Errorf("and again"))
		case 2:
			return agerrors.WithDeferred(nil, fmt.Errorf("service %d: closing failed", s.idx))
		}

		return fmt.Errorf("service %d failed", s.idx)
	case outPanic:
		panic("service panics in Shutdown")
	case outPanicErr:
		panic(fmt.Errorf("service %d panics with an error", s.idx))
	case outPanicRuntime:
		var m map[string]int
		m["nil map"] = s.idx // a runtime.Error
	case outPanicNil:
		panic(nil)
	}

	return nil
}

func runSignal(rc *kernel.RunCtx, k *kernel.Kernel) {
	tp := rc.Tape
	nSvc := tp.Choose(6)
	timeout := time.Duration(tp.Range(1, 20)) * time.Second
	var calls []int
	svcs := make([]*svc, nSvc)
	for i := range svcs {
		s := &svc{k: k, idx: i, calls: &calls, timeout: timeout}
		switch c := tp.Choose(10); {
		case c < 4:
			s.outcome = outNil
		case c < 6:
			s.outcome = outErr
		case c < 7:
			s.outcome = outPanic
		case c < 8:
			s.outcome = outPanicErr
		case c < 9:
			s.outcome = outPanicRuntime
		default:
			s.outcome = outPanicNil
		}
		if s.outcome != outNil {
			rc.Stats.Fault([]string{"", "service-error", "service-panic", "service-panic", "service-panic-runtime-error", "service-panic-nil"}[s.outcome])
		}
		s.slow = tp.Choose(3)
		if tp.Bool(1, 6) {
			s.expire = true
			rc.Stats.Fault("shutdown-timeout-expired")
		}
		svcs[i] = s
	}

	// Signal script.
	shutdownSigs := []os.Signal{syscall.SIGINT, syscall.SIGTERM, syscall.SIGQUIT}
	otherSigs := []os.Signal{syscall.SIGHUP, syscall.SIGUSR1, syscall.SIGUSR2, syscall.SIGPIPE, customSignal{}}
	var script []os.Signal
	for n := tp.Choose(5); n > 0; n-- {
		if tp.Bool(1, 3) {
			script = append(script, shutdownSigs[tp.Choose(3)])
		} else {
			script = append(script, otherSigs[tp.Choose(len(otherSigs))])
		}
	}
	finalSig := shutdownSigs[tp.Choose(3)]
	preCancelled := tp.Bool(1, 5)

	nt := &notifier{}
	hconf := &service.SignalHandlerConfig{
		SignalNotifier:  nt,
		Logger:          slogutil.NewDiscardLogger(),
		ShutdownTimeout: timeout,
	}
	h := service.NewSignalHandler(hconf)
	// The configuration structure is the caller's to reuse once the
	// constructor has returned.
	otherNt := &notifier{}
	if tp.Bool(1, 4) {
		*hconf = service.SignalHandlerConfig{
			SignalNotifier:  otherNt,
			Logger:          slogutil.NewDiscardLogger(),
			ShutdownTimeout: timeout/2 + time.Nanosecond,
		}
		rc.Stats.Probe("config-structure-reused-after-construction")
	}
	if nt.ch == nil {
		rc.Fail("no-notify", "NewSignalHandler", "the handler did not register with the signal notifier")

		return
	}
	// Services are added in two batches (Add is variadic and appends).
	half := tp.Choose(nSvc + 1)
	var a, b []service.Interface
	for i, s := range svcs {
		if i < half {
			a = append(a, s)
		} else {
			b = append(b, s)
		}
	}
	h.Add(a...)
	h.Add(b...)
	// The caller may reuse the slices it passed to the variadic Add: they are
	// overwritten with a service that must never be shut down.
	poison := &svc{k: k, idx: -1, calls: &calls, timeout: timeout}
	for i := range a {
		a[i] = poison
	}
	for i := range b {
		b[i] = poison
	}
	k.Logf("signal: services=", kernel.Itoa(nSvc), " script=", kernel.Itoa(len(script)), " precancelled=", btoa(preCancelled))

	// A second Handle call on the same handler, after more services have been
	// added, must again shut down everything registered in reverse order.
	nRounds := 1
	var extra []*svc
	if tp.Bool(1, 3) {
		nRounds = 2
		rc.Stats.Probe("second-handle-call")
		for n := tp.Choose(3); n > 0; n-- {
			s := &svc{k: k, idx: len(svcs) + len(extra), calls: &calls, timeout: timeout, slow: tp.Choose(2)}
			if tp.Bool(1, 3) {
				s.outcome = outErr
			}
			extra = append(extra, s)
		}
	}
	scripts := [][]os.Signal{script}
	finals := []os.Signal{finalSig}
	if nRounds == 2 {
		var script2 []os.Signal
		for n := tp.Choose(3); n > 0; n-- {
			script2 = append(script2, otherSigs[tp.Choose(len(otherSigs))])
		}
		scripts = append(scripts, script2)
		finals = append(finals, shutdownSigs[tp.Choose(3)])
	}

	// Scheduler-side state.  queue holds the signals that were enqueued and
	// not yet accounted to a Handle call that has returned: a Handle call
	// consumes signals up to and including the first shutdown signal.
	var queue []os.Signal
	queueHasShutdown := func() bool {
		for _, sig := range queue {
			if refShutdownSignal(sig) {
				return true
			}
		}

		return false
	}
	round := 0 // Handle calls that have returned
	justReturned := false
	status := -1
	registered := svcs

	baseCtx, cancelBase := context.WithCancel(context.Background())
	if preCancelled {
		cancelBase()
	}
	defer cancelBase()

	handler := k.Go("handler", false, func() {
		for r := 0; r < nRounds; r++ {
			if r > 0 {
				var more []service.Interface
				for _, s := range extra {
					more = append(more, s)
				}
				h.Add(more...)
				for i := range more {
					more[i] = poison
				}
				k.Tell("handle.added", func() { registered = append(append([]*svc(nil), svcs...), extra...) })
			}
			k.Yield("handle.start")
			var st osutil.ExitCode
			pv, stack := func() (pv any, stack string) {
				defer func() {
					if v := recover(); v != nil {
						if kernel.IsAbort(v) {
							panic(v)
						}
						pv, stack = v, string(debug.Stack())
					}
				}()
				st = h.Handle(baseCtx)

				return nil, ""
			}()
			if pv != nil {
				k.Report("panic", kernel.PanicSite(stack), fmt.Sprintf("Handle panicked: %v\n%s", pv, stack))

				return
			}
			k.Tell("handle.returned", func() {
				justReturned = true
				status = st
				k.Logf("  Handle returned ", kernel.Itoa(st))
			})
		}
	})

	send := func(sig os.Signal) bool {
		// signal.Notify never blocks: a full channel drops the signal.
		select {
		case nt.ch <- sig:
			return true
		default:
			return false
		}
	}
	// A faithful notifier relays only the signals the handler registered for,
	// as os/signal does (the other half of the runs delivers whatever the
	// script says, which is how "ignores non-shutdown signals" is exercised).
	// With it a shutdown signal can only be dropped because another signal
	// that the handler asked for sits in its one-slot channel - so once a
	// shutdown signal has been sent, Handle has to come back without any
	// re-sending.
	faithful := nRounds == 1 && tp.Bool(1, 2)
	regSigs := append([]os.Signal(nil), nt.sigs...)
	shutdownSent := false // scheduler-side: a registered shutdown signal was sent (enqueued or dropped)
	if faithful {
		rc.Stats.Probe("notifier-relays-registered-signals-only")
	}
	k.Go("signals", true, func() {
		deliver := func(sig os.Signal) bool {
			shutdown := refShutdownSignal(sig)
			k.Yield("signal.next")
			if faithful && !slices.Contains(regSigs, sig) {
				return false
			}
			ok := send(sig)
			k.Tell("signal.sent", func() {
				if faithful && shutdown {
					shutdownSent = true
				}
				if !ok {
					rc.Stats.Fault("signal-dropped-channel-full")
					k.Logf("  signal ", sig.String(), " dropped")

					return
				}
				k.Logf("  signal ", sig.String(), " enqueued")
				queue = append(queue, sig)
				if !shutdown {
					rc.Stats.Fault("non-shutdown-signal")
				}
			})

			return ok
		}
		for r := 0; r < nRounds; r++ {
			r := r
			for _, sig := range scripts[r] {
				deliver(sig)
			}
			// Faults stop: one shutdown signal is re-sent until it is enqueued
			// (every attempt is a step, so a handler that is alive drains the
			// one-slot channel in between) or this round's Handle has returned.
			for i := 0; i < 64; i++ {
				if deliver(finals[r]) || faithful {
					break
				}
				if k.Ask("signal.retry", func() any { return round > r }).(bool) {
					break
				}
			}
			k.YieldOpts(kernel.Opts{Site: "signals.round-done", Pred: func() bool { return round > r }})
		}
		k.YieldOpts(kernel.Opts{Site: "signals.done", Pred: func() bool { return false }})
	})

	checkRound := func() {
		if round > 0 {
			// A repeated Handle call: the statement describes one call; whether
			// a later call shuts everything down again, only what was added
			// since, or nothing at all is left open.  What is not: within the
			// call nobody is shut down twice, the order is reverse registration
			// order, and success is not reported if a Shutdown it made failed.
			failed := false
			for i, idx := range calls {
				if idx < 0 || idx >= len(registered) || (i > 0 && idx >= calls[i-1]) {
					k.Fail("shutdown-sequence", "SignalHandler.Handle", fmt.Sprintf(
						"Handle call #%d (after %d more services were added): Shutdown was called on services %v, which is not reverse registration order without repetition",
						round+1, len(extra), calls))

					return
				}
				failed = failed || registered[idx].outcome != outNil
			}
			if status == osutil.ExitCodeSuccess && failed {
				k.Fail("exit-status", "SignalHandler.Handle", fmt.Sprintf(
					"Handle call #%d returned ExitCodeSuccess although a Shutdown it called did not return nil (called %v, outcomes: %s)", round+1, calls, outcomes(registered)))
			}

			return
		}
		want := make([]int, 0, len(registered))
		allNil := true
		for i := len(registered) - 1; i >= 0; i-- {
			want = append(want, i)
			allNil = allNil && registered[i].outcome == outNil
		}
		if fmt.Sprint(calls) != fmt.Sprint(want) {
			k.Fail("shutdown-sequence", "SignalHandler.Handle", fmt.Sprintf(
				"Handle call #%d: Shutdown was called on services %v, want every registered service once in reverse order %v (outcomes: %s)",
				round+1, calls, want, outcomes(registered)))
		} else if status == osutil.ExitCodeSuccess && !allNil {
			k.Fail("exit-status", "SignalHandler.Handle", fmt.Sprintf(
				"Handle returned ExitCodeSuccess although not every service's Shutdown returned nil (outcomes: %s)", outcomes(registered)))
		} else if status != osutil.ExitCodeSuccess && allNil {
			// Only "success only if all returned nil" is stated.
			rc.Stats.Probe("failure-status-although-all-nil")
		}
	}
	k.AfterDrain = func() {
		// Evaluated after all notes of a step: the signal's delivery and the
		// handler's reaction to it can happen within one step.
		switch {
		case !queueHasShutdown() && len(calls) > 0:
			k.Fail("shutdown-before-signal", "SignalHandler.Handle", "a service was shut down before any shutdown signal was delivered")
		case !queueHasShutdown() && justReturned && round > 0:
			// A repeated call that returns at once: left open, see checkRound.
			calls = calls[:0]
			justReturned = false
			round++
		case !queueHasShutdown() && justReturned:
			k.Fail("returned-without-shutdown-signal", "SignalHandler.Handle", "Handle returned although no shutdown signal was delivered")
		case justReturned:
			checkRound()
			for i, sig := range queue {
				if refShutdownSignal(sig) {
					queue = append([]os.Signal(nil), queue[i+1:]...)

					break
				}
			}
			calls = calls[:0]
			justReturned = false
			round++
		}
	}

	k.Run()

	if !k.Failed() && k.HarnessErr == "" && k.Inconclusive == "" && round < nRounds && (queueHasShutdown() || shutdownSent) {
		k.Fail("no-return", "SignalHandler.Handle", "a shutdown signal was delivered and no more events are pending, but Handle has not returned ("+taskState(handler)+")")
	}
	k.Finish()
	rc.Adopt(k)
}

func taskState(t *kernel.Task) string {
	switch {
	case t.Exited():
		return "exited"
	case t.IsParked():
		return "parked at " + t.ParkedSite()
	default:
		return "blocked"
	}
}

func outcomes(svcs []*svc) string {
	s := ""
	for _, x := range svcs {
		s += []string{"nil", "error", "panic", "panic(error)", "panic(runtime error)", "panic(nil)"}[x.outcome]
		if x.expire {
			s += "+timeout"
		}
		s += " "
	}

	return s
}

// ---- RefreshWorker ----

type marker struct{ id int }

type ctxKey struct{}

type timer struct {
	ch    chan time.Time
	d     time.Duration
	at    time.Time
	fired bool
	id    int
}

type madeCtx struct {
	ctx    context.Context
	parent context.Context
}

type fire struct {
	ch chan time.Time
	at time.Time
}

// refreshSim is the scheduler-side state and oracle of a RefreshWorker run.
const refreshTimeout = 10 * time.Second

type refreshSim struct {
	consTimeout bool // the context constructor sets a timeout

	k  *kernel.Kernel
	rc *kernel.RunCtx
	tp *kernel.Tape

	now    time.Time
	timers []*timer

	loop *kernel.Task // the worker's goroutine, adopted at its first seam call

	startCtx    context.Context
	shutdownCtx context.Context

	// Loop protocol state.
	lastNow        time.Time
	haveNow        bool
	lastUntil      time.Duration
	haveUntil      bool // an UntilNext result not yet consumed by After
	curTimer       *timer
	refreshedSince int // worker refreshes since the last After
	pendingErr     error
	made           map[*kernel.Task]madeCtx // constructed and not yet used, per calling goroutine

	shutdownInvoked  bool
	shutdownReturned bool
	finalRefreshes   int
	finalErr         error
	onShutdown       bool
	errSeq           int
	finalHandled     bool

	// zeroRace is the mode that constructs the one state in which the
	// worker's select has two ready cases: Shutdown has returned while a
	// refresh was in flight, the schedule then answers zero and the clock's
	// timer is already due when it is created.  Which case the Go runtime
	// picks is random; on code that gives the shutdown priority both choices
	// end the loop silently, so the event log is the same either way.
	zeroRace      bool
	inRefresh     bool
	fired         int
	shutdownAfter int
	errPool       []error
	ctxSeq        int
	simTime       time.Duration
	nRefresh      int
}

func (s *refreshSim) fail(class, msg string) { s.k.Fail(class, "RefreshWorker", msg) }

// foreign stands for the parts of another worker's configuration, written
// into the caller's configuration structure after this worker has been
// constructed.  Any use is a violation; it then behaves like the real part so
// that the run ends in the ordinary way.
type foreign struct {
	s    *refreshSim
	what string
}

func (f foreign) trip() {
	f.s.k.Tell("foreign."+f.what, func() {
		f.s.fail("foreign-config-used", "the worker used the "+f.what+" that was written into the caller's configuration structure after NewRefreshWorker had returned")
	})
}
func (f foreign) Now() time.Time                         { f.trip(); return simClock{f.s}.Now() }
func (f foreign) After(d time.Duration) <-chan time.Time { f.trip(); return simClock{f.s}.After(d) }
func (f foreign) UntilNext(now time.Time) time.Duration {
	f.trip()
	return simSchedule{f.s}.UntilNext(now)
}
func (f foreign) Refresh(ctx context.Context) error     { f.trip(); return nil }
func (f foreign) Handle(ctx context.Context, err error) { f.trip() }
func (f foreign) New(parent context.Context) (context.Context, context.CancelFunc) {
	f.trip()

	return simCons{f.s}.New(parent)
}

func (s *refreshSim) isLoop() bool {
	t := s.k.LastRun()
	if t == nil {
		return false
	}
	if t.Dynamic {
		if s.loop == nil {
			s.loop = t
		}

		return t == s.loop
	}

	return false
}

func (t *timer) firedAfterShutdown() bool { return t.fired && t.id < 0 }

// clock seam.
type simClock struct{ s *refreshSim }

func (c simClock) Now() time.Time {
	s := c.s

	return s.k.Ask("clock.Now", func() any {
		if s.tp.Bool(1, 6) {
			// Clocks jump, also backwards.
			s.now = s.now.Add(time.Duration(s.tp.Range(-5, 50)) * time.Minute)
			s.rc.Stats.Fault("clock-jump")
		}
		if s.isLoop() {
			s.lastNow, s.haveNow = s.now, true
		}

		return s.now
	}).(time.Time)
}

func (c simClock) After(d time.Duration) <-chan time.Time {
	s := c.s

	return s.k.Ask("clock.After", func() any {
		t := &timer{ch: make(chan time.Time, 1), d: d, at: s.now.Add(d), id: len(s.timers) + 1}
		s.timers = append(s.timers, t)
		s.k.Logf("  After(", d.String(), ")")
		if s.zeroRace && s.shutdownReturned && d == 0 && s.isLoop() {
			// A zero delay: the timer is already due.
			t.fired = true
			t.id = -t.id
			t.ch <- s.now
			s.rc.Nondet = true
			s.rc.Stats.Fault("timer-already-due-after-shutdown")
			s.k.Logf("  timer already due: select with two ready cases")
		}
		if s.isLoop() {
			switch {
			case !s.haveUntil:
				s.fail("schedule-not-consulted", "the worker armed a timer without consulting the schedule for this interval")
			case d != s.lastUntil:
				s.fail("wrong-delay", "the worker waits "+d.String()+" but the schedule last returned "+s.lastUntil.String())
			case s.curTimer != nil && s.curTimer.fired && s.refreshedSince != 1:
				s.fail("refresh-count", "the worker refreshed "+kernel.Itoa(s.refreshedSince)+" times for one elapsed interval")
			case s.pendingErr != nil:
				s.fail("error-not-handled", "a Refresh error was not handed to the ErrorHandler before the next interval")
			}
			s.haveUntil = false
			s.curTimer = t
			s.refreshedSince = 0
		}

		return (<-chan time.Time)(t.ch)
	}).(<-chan time.Time)
}

// schedule seam.
type simSchedule struct{ s *refreshSim }

func (sc simSchedule) UntilNext(now time.Time) time.Duration {
	s := sc.s

	return s.k.Ask("schedule.UntilNext", func() any {
		var d time.Duration
		c := s.tp.Choose(5)
		if s.zeroRace && s.shutdownReturned {
			c = 0
		}
		switch c {
		case 0:
			d = 0
		case 1:
			d = time.Duration(s.tp.Range(1, 1000)) * time.Millisecond
		case 2:
			d = time.Duration(s.tp.Range(1, 48)) * time.Hour
		default:
			d = time.Duration(s.tp.Range(1, 600)) * time.Second
		}
		s.k.Logf("  UntilNext = ", d.String())
		if s.isLoop() {
			if !s.haveNow || !now.Equal(s.lastNow) {
				// Not constrained by the statement (the time received from
				// the timer would do as well): counted only.
				s.rc.Stats.Probe("untilnext-not-given-clock-now")
			}
			s.lastUntil, s.haveUntil = d, true
		}

		return d
	}).(time.Duration)
}

// context constructor seam.
type simCons struct{ s *refreshSim }

func (c simCons) New(parent context.Context) (context.Context, context.CancelFunc) {
	s := c.s
	id := s.k.Ask("ctxcons.id", func() any { s.ctxSeq++; return s.ctxSeq }).(int)
	ctx, cancel := context.WithCancel(context.WithValue(parent, ctxKey{}, &marker{id: id}))
	if s.consTimeout {
		// What contextutil.TimeoutConstructor does.
		cancel()
		ctx, cancel = context.WithTimeout(context.WithValue(parent, ctxKey{}, &marker{id: id}), refreshTimeout)
	}
	s.k.Tell("ctxcons.New", func() {
		t := s.k.LastRun()
		if _, ok := s.made[t]; ok {
			// Constructing a context that is never used is wasteful but not
			// excluded by the statement: counted only.
			s.rc.Stats.Probe("constructed-context-unused")
		}
		s.made[t] = madeCtx{ctx: ctx, parent: parent}
	})

	return ctx, cancel
}

// refresher seam.
type simRefresher struct{ s *refreshSim }

func (r simRefresher) Refresh(ctx context.Context) error {
	s := r.s
	res := s.k.Ask("refresher.Refresh", func() any {
		byLoop := s.isLoop()
		s.nRefresh++
		s.k.Logf("  Refresh by ", s.k.LastRun().Name)
		m, ok := s.made[s.k.LastRun()]
		switch {
		case !ok || ctx != m.ctx:
			s.fail("wrong-context", "Refresh was not given the context just produced by the ContextConstructor")
		case byLoop && m.parent != s.startCtx, !byLoop && m.parent != s.shutdownCtx:
			// Which parent the constructor is given is not part of the
			// statement: counted only.
			s.rc.Stats.Probe("refresh-context-parent-unexpected")
		}
		delete(s.made, s.k.LastRun())
		if byLoop {
			switch {
			case s.curTimer == nil || !s.curTimer.fired:
				s.fail("refresh-without-tick", "the worker refreshed although no schedule interval has elapsed")
			case s.curTimer.firedAfterShutdown():
				s.fail("refresh-after-shutdown", "the worker refreshed for a tick that fired after Shutdown had returned")
			}
			s.refreshedSince++
			if s.refreshedSince > 1 {
				s.fail("refresh-count", "the worker refreshed twice for one elapsed interval")
			}
		} else {
			if !s.shutdownInvoked || s.shutdownReturned {
				s.fail("stray-refresh", "Refresh was called outside the worker loop and outside Shutdown")
			}
			s.finalRefreshes++
			if !s.onShutdown || s.finalRefreshes > 1 {
				s.fail("final-refresh", "unexpected refresh inside Shutdown (RefreshOnShutdown="+btoa(s.onShutdown)+", #"+kernel.Itoa(s.finalRefreshes)+")")
			}
		}
		// Outcome and slowness.
		out := [3]any{0, error(nil), false}
		out[0] = s.tp.Choose(4)
		if byLoop {
			s.inRefresh = true
			out[2] = s.zeroRace && !s.shutdownReturned && s.fired >= s.shutdownAfter
		}
		if s.tp.Bool(1, 3) {
			// Error values are created before the run: nothing allocated by
			// the scheduler during the run may be shared with tasks.
			err := s.errPool[s.errSeq%len(s.errPool)]
			s.errSeq++
			out[1] = err
			s.rc.Stats.Fault("refresh-error")
			if byLoop {
				s.pendingErr = err
			} else {
				s.finalErr = err
			}
		}

		return out
	}).([3]any)
	for i := 0; i < res[0].(int); i++ {
		s.k.Yield("refresher.slow")
	}
	if s.consTimeout && res[0].(int) == 3 {
		// The refresh overruns the deadline of its context (simulated time
		// passes while the scheduler goroutine sleeps in the bubble's fake
		// time); what it returns is still what it returns.
		s.k.Ask("refresher.overrun", func() any {
			time.Sleep(refreshTimeout + time.Second)
			s.rc.Stats.Fault("refresh-overruns-context-deadline")

			return nil
		})
	}
	if res[2].(bool) {
		// zeroRace: this worker refresh stays in flight until Shutdown has
		// returned.
		s.k.YieldOpts(kernel.Opts{Site: "refresher.in-flight", Pred: func() bool { return s.shutdownReturned }})
	}
	s.k.Tell("refresher.done", func() { s.inRefresh = false })
	err, _ := res[1].(error)

	return err
}

// error handler seam.
type simErrHandler struct{ s *refreshSim }

func (h simErrHandler) Handle(_ context.Context, err error) {
	s := h.s
	s.k.Ask("errhandler.Handle", func() any {
		s.k.Logf("  ErrorHandler.Handle")
		switch {
		case s.pendingErr == nil && err != nil && err == s.finalErr && !s.finalHandled:
			// The final refresh's error is returned by Shutdown; whether it
			// is also handed to the ErrorHandler (once) is left open by the
			// statement.
			s.finalHandled = true
			s.rc.Stats.Probe("final-error-also-handled")

			return nil
		case s.pendingErr == nil:
			s.fail("spurious-error-handling", "the ErrorHandler was called without a pending Refresh error (nil error or the same error twice)")
		case err != s.pendingErr:
			s.fail("wrong-error", "the ErrorHandler did not receive the error returned by Refresh")
		}
		s.pendingErr = nil

		return nil
	})
}

func runRefresh(rc *kernel.RunCtx, k *kernel.Kernel) {
	tp := rc.Tape
	s := &refreshSim{k: k, rc: rc, tp: tp, now: time.Date(2025, 1, 1, 0, 0, 0, 0, time.UTC), made: map[*kernel.Task]madeCtx{}}
	s.onShutdown = tp.Bool(1, 2)
	if tp.Bool(1, 5) {
		s.zeroRace = true
		k.MuteAuto = true
	}
	// The context given to Start is cancelled at a drawn moment in some runs:
	// that is not a shutdown, the worker has to go on refreshing.
	startBase, cancelStart := context.WithCancel(context.Background())
	defer cancelStart()
	s.startCtx = context.WithValue(startBase, ctxKey{}, &marker{id: -1})
	shutBase, cancelShut := context.WithCancel(context.Background())
	defer cancelShut()
	if tp.Bool(1, 5) {
		// Shutdown is called with a context that is already done: cancelled,
		// or past its deadline.
		cancelShut()
		if tp.Bool(1, 2) {
			shutBase, cancelShut = context.WithDeadline(context.Background(), time.Unix(1, 0))
			defer cancelShut()
		}
		rc.Stats.Fault("shutdown-context-already-done")
	}
	s.consTimeout = tp.Bool(1, 4)
	s.shutdownCtx = context.WithValue(shutBase, ctxKey{}, &marker{id: -2})
	for i := 0; i < 16; i++ {
		switch i % 4 {
		case 2:
			// A joined error is one error.
			s.errPool = append(s.errPool, errors.Join(fmt.Errorf("refresh error #%da", i), fmt.Errorf("refresh error #%db", i)))
		case 1:
			// Errors that look like cancellations are errors all the same.
			s.errPool = append(s.errPool, fmt.Errorf("refresh error #%d: %w", i, context.Canceled))
		case 3:
			s.errPool = append(s.errPool, fmt.Errorf("refresh error #%d: %w", i, context.DeadlineExceeded))
		default:
			s.errPool = append(s.errPool, fmt.Errorf("refresh error #%d", i))
		}
	}
	maxTicks := tp.Range(0, 6)
	shutdownAfter := tp.Choose(maxTicks + 1)
	s.shutdownAfter = shutdownAfter
	// The owner may call Shutdown again (a worker that is also registered in a
	// SignalHandler); whatever that call does, it must not refresh.
	shutdownTwice := tp.Bool(1, 4)
	// Lifecycle out of order: the worker is shut down before it is started (a
	// shutdown signal that arrives while services are still starting).  It
	// must not refresh afterwards, whatever Start does then.
	shutdownFirst := !s.zeroRace && tp.Bool(1, 10)
	if shutdownFirst {
		rc.Stats.Probe("shutdown-before-start")
	}
	k.Logf("refresh: onShutdown=", btoa(s.onShutdown), " ticks=", kernel.Itoa(maxTicks), " shutdownAfter=", kernel.Itoa(shutdownAfter))

	conf := &service.RefreshWorkerConfig{
		Clock:              simClock{s},
		ContextConstructor: simCons{s},
		ErrorHandler:       simErrHandler{s},
		Refresher:          simRefresher{s},
		Schedule:           simSchedule{s},
		RefreshOnShutdown:  s.onShutdown,
	}
	w := service.NewRefreshWorker(conf)
	// The caller's configuration structure is the caller's: some runs fill it
	// with the parts of another worker once the constructor has returned (one
	// structure reused for several workers).  The parts of that other worker
	// must never be used by this one.
	if tp.Bool(1, 4) {
		*conf = service.RefreshWorkerConfig{
			Clock:              foreign{s, "Clock"},
			ContextConstructor: foreign{s, "ContextConstructor"},
			ErrorHandler:       foreign{s, "ErrorHandler"},
			Refresher:          foreign{s, "Refresher"},
			Schedule:           foreign{s, "Schedule"},
			RefreshOnShutdown:  !s.onShutdown,
		}
		rc.Stats.Probe("config-structure-reused-after-construction")
	}

	fired := 0
	shutdownRequested := false

	// The clock's environment task: fires the pending timer of the worker.
	pending := func() *timer {
		for _, t := range s.timers {
			if !t.fired {
				return t
			}
		}

		return nil
	}
	k.Go("ticker", true, func() {
		for {
			f := k.YieldOpts(kernel.Opts{
				Site: "tick",
				// A timer is fired only while the worker goroutine is blocked
				// (in its select) or gone, never while it is parked at a
				// yield on its way there: otherwise a closed done channel and
				// a due timer could both be ready when it arrives, and which
				// one the Go runtime picks cannot be replayed.  (The one
				// deliberate exception is the zeroRace mode.)
				Pred: func() bool {
					return pending() != nil && (fired < maxTicks || s.shutdownReturned) && s.loop != nil && s.loop.IsBlocked()
				},
				Act: func() any {
					t := pending()
					t.fired = true
					fired++
					s.fired = fired
					late := time.Duration(0)
					if tp.Bool(1, 4) {
						late = time.Duration(tp.Range(1, 90)) * time.Second
						rc.Stats.Fault("timer-late")
					}
					if t.at.After(s.now) {
						s.now = t.at
					}
					s.now = s.now.Add(late)
					s.simTime += t.d + late
					if s.shutdownReturned {
						t.id = -t.id // fired after Shutdown has returned
						rc.Stats.Probe("tick-after-shutdown-returned")
					} else if s.shutdownInvoked {
						rc.Stats.Probe("tick-while-shutdown-in-progress")
					}
					k.Logf("  fire timer ", t.d.String())

					// Only values travel to the task: the channel and the time.
					return fire{ch: t.ch, at: s.now}
				},
			}).(fire)
			f.ch <- f.at
		}
	})

	if tp.Bool(1, 4) {
		cancelAt := tp.Choose(maxTicks + 1)
		k.Go("start-ctx-canceller", true, func() {
			k.YieldOpts(kernel.Opts{
				Site: "cancel-start-context",
				Pred: func() bool { return fired >= cancelAt && s.loop != nil },
				Post: func() {},
				Act: func() any {
					rc.Stats.Fault("start-context-cancelled")
					k.Logf("  context given to Start cancelled")

					return nil
				},
			})
			cancelStart()
			k.YieldOpts(kernel.Opts{Site: "canceller.done", Pred: func() bool { return false }})
		})
	}

	k.Go("controller", false, func() {
		start := func() bool {
			k.Yield("start")
			if err := w.Start(s.startCtx); err != nil {
				k.Report("start-error", "RefreshWorker.Start", err.Error())

				return false
			}

			return true
		}
		if !shutdownFirst {
			if !start() {
				return
			}
			k.YieldOpts(kernel.Opts{
				Site: "shutdown.when",
				Pred: func() bool { return fired >= shutdownAfter && (!s.zeroRace || s.inRefresh || fired >= maxTicks) },
				Post: func() { shutdownRequested = true },
			})
		}
		k.Ask("shutdown.invoke", func() any {
			s.shutdownInvoked = true
			if s.curTimer != nil && s.curTimer.fired && s.refreshedSince == 0 {
				rc.Stats.Probe("shutdown-with-refresh-in-flight-or-due")
			}
			k.Logf("  Shutdown invoked")

			return nil
		})
		var err error
		pv, stack := func() (pv any, stack string) {
			defer func() {
				if v := recover(); v != nil {
					if kernel.IsAbort(v) {
						panic(v)
					}
					pv, stack = v, string(debug.Stack())
				}
			}()
			err = w.Shutdown(s.shutdownCtx)

			return nil, ""
		}()
		if pv != nil {
			k.Report("panic", kernel.PanicSite(stack), fmt.Sprintf("Shutdown panicked: %v\n%s", pv, stack))

			return
		}
		k.Tell("shutdown.returned", func() {
			s.shutdownReturned = true
			k.Logf("  Shutdown returned")
			switch {
			case s.onShutdown && s.finalRefreshes != 1:
				s.fail("final-refresh", "RefreshOnShutdown is set but Shutdown made "+kernel.Itoa(s.finalRefreshes)+" refreshes")
			case s.finalErr == nil && err != nil:
				s.fail("shutdown-error", "Shutdown returned an error although the final refresh did not fail: "+err.Error())
			case s.finalErr != nil && !errors.Is(err, s.finalErr):
				s.fail("shutdown-error", "Shutdown did not return the final refresh's error")
			}
		})
		if shutdownFirst && !start() {
			return
		}
		if shutdownTwice {
			func() {
				defer func() {
					if v := recover(); v != nil && kernel.IsAbort(v) {
						panic(v)
					}
				}()
				_ = w.Shutdown(s.shutdownCtx)
			}()
			k.Tell("shutdown.again", func() {
				rc.Stats.Probe("shutdown-called-again")
				k.Logf("  second Shutdown call over")
			})
		}
		// After Shutdown the ticker fires every outstanding timer; the worker
		// must stay silent (a refresh in flight may finish its iteration).
		k.YieldOpts(kernel.Opts{
			Site: "after-shutdown",
			Pred: func() bool { return pending() == nil && s.loopQuiet() },
		})
	})
	_ = shutdownRequested

	k.Run()
	if !k.Failed() && k.HarnessErr == "" && k.Inconclusive == "" {
		for _, t := range k.Tasks() {
			if !t.Daemon && !t.Exited() {
				s.fail("stuck", "task "+t.Name+" cannot finish ("+taskState(t)+")")

				break
			}
		}
	}
	if !k.Failed() && s.pendingErr != nil && s.shutdownReturned && s.loopQuiet() {
		s.fail("error-not-handled", "a Refresh error was never handed to the ErrorHandler")
	}
	rc.SimTime = s.simTime
	k.Finish()
	rc.Adopt(k)
}

// loopQuiet reports whether the worker goroutine is not parked in a seam.
func (s *refreshSim) loopQuiet() bool { return s.loop == nil || !s.loop.IsParked() }

// installHooks: the service package needs no hooks; the default slog logger
// (used by RefreshWorker to report recovered panics, among them the
// scheduler's own abort sentinel at the end of a run) is silenced.
func installHooks() {
	slog.SetDefault(slog.New(slog.DiscardHandler))
	if overlayHooks != nil {
		overlayHooks()
	}
	if simsyncHooks != nil {
		simsyncHooks()
	}
}

// overlayHooks is set by autoyield_test.go when the check is built with the
// statement-level yield overlay.
var overlayHooks func()

// simsyncHooks is set by simsync_test.go when the check is built with
// simulated mutexes.
var simsyncHooks func()
