// Package canary validates the hygiene of the kernel's race oracle: the
// scheduler's own hand-off must neither hide a race between tasks nor invent
// one.  It is not a check of a golibs property; tools/selftest.py runs it.
package canary

import (
	"sync"
	"testing"
	"unsafe"

	"github.com/AdguardTeam/golibs/syncutil"

	"verif/sim/kernel"
)

func TestWorker(t *testing.T) {
	kernel.WorkerMain(t, &kernel.Check{
		ID:           "CANARY",
		Bubble:       true,
		RaceAnywhere: true,
		Setup: func() {
			syncutil.SimPoolGet = kernel.PoolGet
			syncutil.SimPoolPut = kernel.PoolPut
		},
		Run: run,
	})
}

type box struct{ n int }

// Modes.  Even modes are correctly synchronised (no report allowed), odd
// modes are not (a report is required whenever both accesses happened).
const (
	modeMutex     = 0 // counter under a mutex, yields inside the critical section
	modeNone      = 1 // counter without synchronisation
	modeChannel   = 2 // value handed over through a channel of the code's own
	modeNoneSeq   = 3 // unsynchronised, tasks run strictly one after the other
	modePool      = 4 // object handed over through the simulated pool
	modePoolAfter = 5 // object used after it was put into the pool
	modeSimMutex  = 6 // counter under a simulated mutex, yields inside the critical section
	modeSimSkip   = 7 // the same, but task 0 does not take the simulated mutex
	modeSimRW     = 8 // writers under Lock, readers under RLock of a simulated RWMutex
	modeSimRWBad  = 9 // a reader writes under RLock while another reader reads
	numModes      = 10
)

// simLock has the layout of the replacement types that tools/autoyield adds to
// a package (eight bytes of simulator state first).
type simLock struct {
	st   [8]byte
	real sync.RWMutex
}

func (m *simLock) op(op int) bool {
	_, ok := kernel.SimSync(op, unsafe.Pointer(m))

	return ok
}

func run(rc *kernel.RunCtx) {
	tp := rc.Tape
	k := kernel.NewKernel(tp)
	k.KeepLog = rc.KeepLog
	ps := k.EnablePool(rc.Stats)
	ps.DropPuts, ps.MissRate, ps.Newest = 0, 0, true
	mode := tp.Choose(numModes)
	k.Logf("mode ", kernel.Itoa(mode))
	rc.Stats.Probe("mode-" + kernel.Itoa(mode))

	var mu sync.Mutex
	sl := &simLock{}
	shadow := 0
	counter := 0
	ch := make(chan *box, 1)
	pool := syncutil.NewPool(func() *box { return &box{} })
	nTasks := 2 + tp.Choose(2)
	accessed := 0 // scheduler-side

	for ti := 0; ti < nTasks; ti++ {
		ti := ti
		k.Go("T"+kernel.Itoa(ti), false, func() {
			switch mode {
			case modeMutex:
				for i := 0; i < 2; i++ {
					k.YieldOpts(kernel.Opts{Site: "lock", Mu: &mu})
					mu.Lock()
					counter++
					k.Yield("inside")
					counter++
					mu.Unlock()
				}
			case modeNone:
				k.Yield("a")
				counter++
				k.Tell("done", func() { accessed++ })
			case modeNoneSeq:
				// Only runnable when every task with a lower index has exited.
				k.YieldOpts(kernel.Opts{Site: "turn", Pred: func() bool {
					for _, t := range k.Tasks() {
						if t.Idx < ti && !t.Exited() {
							return false
						}
					}

					return true
				}})
				counter++
				k.Tell("done", func() { accessed++ })
			case modeChannel:
				if ti == 0 {
					b := &box{n: 1}
					k.Yield("before-send")
					ch <- b
				} else if ti == 1 {
					k.Yield("before-recv")
					b := <-ch
					b.n++
				}
			case modeSimMutex, modeSimSkip:
				for i := 0; i < 2; i++ {
					skip := mode == modeSimSkip && ti == 0
					if !skip {
						sl.op(kernel.OpLock)
					}
					counter++
					k.Yield("inside")
					counter++
					if !skip {
						sl.op(kernel.OpUnlock)
					}
				}
				k.Tell("done", func() { accessed++ })
			case modeSimRW, modeSimRWBad:
				if ti == 0 {
					sl.op(kernel.OpLock)
					counter++
					k.Yield("writing")
					sl.op(kernel.OpUnlock)
				} else {
					sl.op(kernel.OpRLock)
					_ = counter
					k.Yield("reading")
					if mode == modeSimRWBad && ti == 1 {
						shadow++ // a write under a read lock, racing with the other readers' reads
					} else {
						_ = shadow
					}
					sl.op(kernel.OpRUnlock)
				}
				k.Tell("done", func() { accessed++ })
			case modePool, modePoolAfter:
				k.Yield("a")
				b := pool.Get()
				b.n++
				k.Yield("b")
				pool.Put(b)
				if mode == modePoolAfter {
					k.Yield("c")
					b.n++ // use after Put
					k.Tell("done", func() { accessed++ })
				}
			}
		})
	}
	k.Run()
	k.Finish()
	rc.Adopt(k)
	// The self-test reads the mode of every run from the signature column of
	// the per-run hash file (race reports are attributed after Run returns).
	rc.Sig = uint64(mode)
	if accessed < 2 && (mode == modeNone || mode == modeNoneSeq) {
		rc.Sig = 99
	}
	if mode == modeSimRWBad && nTasks < 3 {
		rc.Sig = 99 // one reader only: nobody to race with
	}
	_, _ = counter, shadow
}
