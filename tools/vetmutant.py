#!/usr/bin/env python3
"""vetmutant.py <outdir> <ID> <name>: confirms an externally produced mutant and files it under /verif/seeded/<name>/.

Checks, in a scratch worktree of /repo HEAD (outside /repo and /verif, removed afterwards):
  1. patch applies and the library builds;
  2. the repository's own suite (tag off) passes with the patch;
  3. the demonstration fails with the patch and passes without it;
  4. runs /verif/run.py <ID> (quick tier) against the patched tree and records the verdict.
"""
import json, os, re, shutil, subprocess, sys, tempfile, time

out, cid, name = sys.argv[1], sys.argv[2], sys.argv[3]
runs = sys.argv[4] if len(sys.argv) > 4 else None
patch = os.path.join(out, "patch.diff")
demos = [f for f in os.listdir(out) if f.endswith("_test.go")]
env = dict(os.environ, GOFLAGS="-mod=mod", GOPROXY="off")
for k in ("GOTOOLCHAIN", "GOSUMDB"):
    env.pop(k, None)

def sh(cmd, cwd, e=env, timeout=1800):
    p = subprocess.run(cmd, cwd=cwd, env=e, stdout=subprocess.PIPE, stderr=subprocess.STDOUT, text=True, timeout=timeout)
    return p.returncode, p.stdout

wt = tempfile.mkdtemp(prefix="vetwt-"); os.rmdir(wt)
subprocess.run(["git", "-C", "/repo", "worktree", "add", "-q", "--detach", wt, "HEAD"], check=True)
meta = dict(property=cid, name=name, source=out, vetted_at=time.strftime("%Y-%m-%dT%H:%M:%S"))
try:
    rc, o = sh(["git", "apply", "--3way", os.path.abspath(patch)], wt)
    if rc != 0:
        print("PATCH DOES NOT APPLY", o); sys.exit(3)
    sh(["git", "reset", "-q"], wt)
    diff = subprocess.run(["git", "-C", wt, "diff"], stdout=subprocess.PIPE, text=True).stdout
    rc, o = sh(["go", "build", "./..."], wt)
    meta["builds"] = rc == 0
    rc, o = sh(["go", "test", "-vet=off", "-count=1", "./..."], wt)
    bad = [l for l in o.splitlines() if not (l.startswith("ok") or "no test files" in l)]
    meta["existing_suite_passes_with_patch"] = rc == 0
    meta["existing_suite_cmd"] = "GOFLAGS=-mod=mod GOPROXY=off go test -vet=off -count=1 ./..."
    if rc != 0:
        print("BASELINE FAILS WITH PATCH:", bad[:10])
    # demo
    demo_res = {}
    for d in demos:
        src = open(os.path.join(out, d)).read()
        m = re.search(r"copy to:\s*([\w/.-]+)", src)
        pkg = (m.group(1) if m else "").strip("/")
        if not pkg:
            print("demo without 'copy to:'", d); continue
        tags = ["-tags", "verif"] if "verif" in src.split("package")[0] or "SimHook" in src else []
        if re.search(r"(?i)run with:?[^\n]*-race", src.split("package")[0]):
            tags = tags + ["-race"]
        if os.environ.get("VET_RUN"):
            # Run only the demonstration (one that depends on the state of sync.Pool or on GOMAXPROCS
            # can be disturbed by the package's other tests).
            tags = tags + ["-run", os.environ["VET_RUN"]]
        dst = os.path.join(wt, pkg, "zz_" + d)
        shutil.copyfile(os.path.join(out, d), dst)
        rc1, o1 = sh(["go", "test", "-vet=off", "-count=1"] + tags + ["./" + pkg + "/"], wt)
        # Remove the source change (keeping the untracked demo) and put it back
        # afterwards.  No `git stash`: the stash is shared by all worktrees of a
        # repository, and other worktrees are in use concurrently.
        sh(["git", "checkout", "--", "."], wt)
        rc2, o2 = sh(["go", "test", "-vet=off", "-count=1"] + tags + ["./" + pkg + "/"], wt)
        pr = subprocess.run(["git", "-C", wt, "apply"], input=diff, text=True, stdout=subprocess.PIPE, stderr=subprocess.STDOUT)
        if pr.returncode != 0:
            print("could not re-apply the patch:", pr.stdout); sys.exit(3)
        os.remove(dst)
        demo_res[d] = dict(package=pkg, fails_with_patch=rc1 != 0, passes_without_patch=rc2 == 0, tags=tags)
        if rc2 != 0:
            print("demo fails WITHOUT patch:", o2[-1500:])
    meta["demonstration"] = demo_res
    ok = meta["builds"] and meta["existing_suite_passes_with_patch"] and demo_res and all(
        v["fails_with_patch"] and v["passes_without_patch"] for v in demo_res.values())
    meta["confirmed"] = bool(ok)
    # my check (on the patched tree: verify that the patch is in place)
    now = subprocess.run(["git", "-C", wt, "diff"], stdout=subprocess.PIPE, text=True).stdout
    if now != diff:
        print("worktree does not hold exactly the patch before the check run"); sys.exit(3)
    cmd = [sys.executable, "/verif/run.py", cid, "--tier", "quick"] + (["--runs", runs] if runs else [])
    e2 = dict(os.environ, VERIF_REPO=wt, VERIF_SEED="1")
    t0 = time.time()
    p = subprocess.run(cmd, env=e2, stdout=subprocess.PIPE, stderr=subprocess.STDOUT, text=True)
    lines = p.stdout.splitlines()
    viol = [l for l in lines if l.startswith("violation ")]
    meta["check"] = dict(cmd=" ".join(cmd[1:]) + " (VERIF_REPO=<patched scratch worktree>)", exit=p.returncode,
                         wall_s=round(time.time() - t0, 1),
                         signatures=[l.split(":")[0].replace("violation ", "") for l in viol][:5],
                         summary=[l[:400] for l in lines if " tier=" in l or l.startswith("HARNESS")][:3])
    meta["detected"] = p.returncode == 1
    print("%s: confirmed=%s detected=%s exit=%d %s" % (name, meta["confirmed"], meta["detected"], p.returncode, meta["check"]["signatures"]))
    if p.returncode not in (0, 1):
        print("\n".join(lines[-15:])[:3000])
finally:
    subprocess.run(["git", "-C", "/repo", "worktree", "remove", "--force", wt])
    shutil.rmtree(wt, ignore_errors=True)

if meta.get("confirmed"):
    dst = os.path.join("/verif/seeded", name)
    os.makedirs(dst, exist_ok=True)
    shutil.copyfile(patch, os.path.join(dst, "patch.diff"))
    for d in demos:
        shutil.copyfile(os.path.join(out, d), os.path.join(dst, d))
    if os.path.exists(os.path.join(out, "notes.md")):
        shutil.copyfile(os.path.join(out, "notes.md"), os.path.join(dst, "notes.md"))
        notes = open(os.path.join(out, "notes.md")).read()
        meta["needs_to_manifest"] = notes[:1500]
    json.dump(meta, open(os.path.join(dst, "meta.json"), "w"), indent=1)
else:
    print("NOT CONFIRMED:", json.dumps(meta, indent=1)[:2000])
