//go:build autoyield

package c17

import (
	"github.com/AdguardTeam/golibs/syncutil"

	"verif/sim/kernel"
)

// With the autoyield overlay every sync.Mutex / sync.RWMutex that sema.go or
// onceconstructor.go may contain is a simulated one (SimSync is added by the
// overlay, not by the repository).
func init() { overlayHooks = func() { syncutil.SimSync = kernel.SimSync } }
