// Package c15 decides property C15: LimitReader and TruncatedWriter never pass
// more than their limit, for every behaviour of the wrapped stream.  Real
// code: github.com/AdguardTeam/golibs/ioutil.  The simulator owns the wrapped
// io.Reader / io.Writer (fragmentation, empty reads, EOF forms, injected
// errors, failing writers) and the sequence of caller buffer sizes.
package c15

import (
	"bytes"
	"errors"
	"fmt"
	"io"
	"math"
	"os"
	"syscall"
	"testing"

	"github.com/AdguardTeam/golibs/ioutil"

	"verif/sim/kernel"
)

func TestWorker(t *testing.T) {
	kernel.WorkerMain(t, &kernel.Check{ID: "C15", Run: run})
}

type ctx struct {
	rc      *kernel.RunCtx
	sig     uint64
	log     []string
	nonTriv bool
}

func (c *ctx) logf(format string, a ...any) {
	if c.rc.KeepLog {
		c.log = append(c.log, fmt.Sprintf(format, a...))
	}
}

func run(rc *kernel.RunCtx) {
	c := &ctx{rc: rc, sig: kernel.HashInit}
	func() {
		defer func() {
			if v := recover(); v != nil {
				rc.Fail("panic", "ioutil", fmt.Sprintf("panic: %v", v))
			}
		}()
		switch m := rc.Tape.Choose(12); {
		case m < 4:
			runWriter(c)
		case m < 10:
			runReader(c)
		case m < 11:
			runNestedReader(c)
		default:
			runGrowingBuffer(c)
		}
	}()
	rc.Log = c.log
	rc.LogHash = c.sig
	rc.Sig = c.sig
	rc.NonTrivial = c.nonTriv
}

func mkData(l int) []byte {
	d := make([]byte, l)
	for i := range d {
		d[i] = byte(i*7 + 3)
	}

	return d
}

func runReader(c *ctx) {
	tp, rc := c.rc.Tape, c.rc
	l := tp.Choose(41)
	data := mkData(l)
	var n uint64
	switch tp.Choose(8) {
	case 0:
		n = 0
	case 1:
		n = uint64(max(l-1, 0))
	case 2:
		n = uint64(l)
	case 3:
		n = uint64(l + 1)
	case 4:
		n = uint64(2*l + 5)
	case 5:
		n = math.MaxUint64
	case 6:
		n = math.MaxUint64 - uint64(tp.Choose(3))
	default:
		n = uint64(tp.Choose(l + 4))
	}
	withErr := tp.Bool(1, 3)
	sr := kernel.NewSimReader(tp, rc.Stats, data, withErr)
	if withErr {
		// "r's errors pass through": whatever their kind.
		sr.Err = errPool[tp.Choose(len(errPool))]
	}
	if tp.Bool(1, 8) {
		// A wrapped reader that breaks the io.Reader contract with a negative
		// count now and then.  What Read returns for such a call is not
		// specified; the limits must hold all the same afterwards.
		sr.NegativeCounts = 6
	}
	nCalls := tp.Range(1, 30)
	if !withErr && tp.Bool(1, 400) {
		// A wrapped reader that returns (0, nil) a hundred times and more in a
		// row (allowed, if discouraged): nothing is delivered meanwhile, and no
		// error is invented.
		sr.ZeroReads, sr.MaxZeroRun, sr.ZeroOutOf4 = true, 90+tp.Choose(60), 4
		nCalls = 200
		rc.Stats.Probe("long-run-of-empty-reads")
	}
	lr := ioutil.LimitReader(sr, n)
	c.logf("reader: stream=%d limit=%d chunk=%d zero=%v data+eof=%v errAt=%d sticky=%v errData=%v",
		l, n, sr.MaxChunk, sr.ZeroReads, sr.DataEOF, sr.ErrAt, sr.ErrSticky, sr.ErrData)
	c.sig = kernel.HashBytes(c.sig, []byte(fmt.Sprint("R", l, n, withErr)))

	var delivered uint64 // bytes handed to the caller so far
	var under uint64     // bytes the wrapped reader has returned so far
	past := 0
	for i := 0; i < nCalls; i++ {
		var bufLen int
		switch tp.Choose(4) {
		case 0:
			bufLen = tp.Choose(3)
		case 1:
			bufLen = tp.Choose(9)
		case 2:
			bufLen = tp.Choose(17)
		default:
			bufLen = tp.Choose(64)
		}
		if tp.Bool(1, 4000) {
			// A very large caller buffer (io.ReadAll grows its buffer without
			// bound).
			bufLen = 1<<20 + tp.Choose(4096)
			rc.Stats.Probe("read-buffer-above-1MiB")
		}
		p := make([]byte, bufLen)
		for j := range p {
			p[j] = 0xEE
		}
		before := len(sr.Calls)
		rc.Steps++
		if delivered < n && tp.Bool(1, 10) {
			// Consume through io.Copy into a writer that may fail (io.Copy
			// uses WriteTo if the reader has one, Read otherwise).  Bytes
			// that io.Copy read but could not write are gone; what matters
			// here is what the wrapped reader was asked for and handed out.
			sw := &kernel.SimWriter{Tape: tp, Stats: rc.Stats, FailRate: 6}
			_, cerr := io.Copy(sw, lr)
			rc.Stats.Probe("reader-consumed-through-io.Copy")
			c.sig = kernel.HashBytes(c.sig, []byte{0xC0, errByte(cerr)})
			var fwd []byte
			for _, wc := range sw.Calls {
				fwd = append(fwd, wc.Data...)
			}
			for _, uc := range sr.Calls[before:] {
				if uint64(uc.Buf) > n-under {
					rc.Fail("over-request", "LimitReader", fmt.Sprintf(
						"during io.Copy the wrapped reader was asked for %d bytes although only %d of the limit %d remain", uc.Buf, n-under, n))

					return
				}
				under += uint64(max(uc.N, 0))
			}
			if under > n || !bytes.Equal(fwd, data[delivered:min(uint64(l), delivered+uint64(len(fwd)))]) {
				rc.Fail("over-delivery", "LimitReader", fmt.Sprintf(
					"io.Copy from the limited reader (limit %d): %d bytes taken from the wrapped reader, %d bytes %v handed to the writer from offset %d", n, under, len(fwd), fwd, delivered))

				return
			}
			delivered = under
			c.nonTriv = true

			continue
		}
		var got int
		var err error
		if br, ok := lr.(io.ByteReader); ok && tp.Bool(1, 4) {
			// The reader offers an optional reading interface: the statement
			// covers what it delivers through it as well.  A nil error means
			// one byte was delivered.
			rc.Stats.Probe("read-through-io.ByteReader")
			bufLen, p = 1, []byte{0xEE}
			var b byte
			if b, err = br.ReadByte(); err == nil {
				p[0], got = b, 1
			}
		} else {
			got, err = lr.Read(p)
		}
		calls := sr.Calls[before:]
		c.logf("Read(buf %d) = (%d, %v); wrapped calls: %s", bufLen, got, err, fmtCalls(calls))
		c.sig = kernel.HashBytes(c.sig, []byte{byte(bufLen), byte(got), byte(len(calls)), errByte(err)})

		if delivered >= n {
			// The limit has been reached.
			c.nonTriv = true
			rc.Stats.Probe("read-after-limit")
			var le *ioutil.LimitError
			asked := 0
			for _, uc := range calls {
				asked += uc.Buf + uc.N
			}
			if asked != 0 || got != 0 || !errors.As(err, &le) || le.Limit != n {
				rc.Fail("limit-reached", "LimitReader.Read", fmt.Sprintf(
					"limit %d already delivered, but Read(buf %d) returned (%d, %v) and asked the wrapped reader for %d more bytes; want (0, *LimitError{%d}) and no further request",
					n, bufLen, got, err, asked, n))

				return
			}
			// The error value is the caller's now; what it does with it (here:
			// it overwrites the exported field) must not show in later calls.
			le.Limit = 4242424242
			past++
			if past > 3 {
				break
			}

			continue
		}

		var sum uint64
		var underErr error
		sawErr, sawNegative := false, false
		for _, uc := range calls {
			if uc.N < 0 {
				// Nothing was delivered by this call.
				sawNegative = true
				uc.N = 0
			}
			allowance := n - under
			if uint64(uc.Buf) > allowance {
				rc.Fail("over-request", "LimitReader.Read", fmt.Sprintf(
					"wrapped reader was asked for %d bytes although only %d of the limit %d remain", uc.Buf, allowance, n))

				return
			}
			under += uint64(uc.N)
			sum += uint64(uc.N)
			if uc.Err != nil {
				underErr, sawErr = uc.Err, true
			}
		}
		if sawNegative {
			// Unspecified result: only sanity and the limits are checked.
			if got < 0 || got > bufLen || uint64(got) > sum {
				rc.Fail("count", "LimitReader.Read", fmt.Sprintf(
					"Read(buf %d) returned n=%d after the wrapped reader returned a negative count (it delivered %d bytes)", bufLen, got, sum))

				return
			}
			if !bytes.Equal(p[:got], data[delivered:delivered+uint64(got)]) {
				rc.Fail("not-prefix", "LimitReader.Read", "bytes delivered after a negative count are not the stream's")

				return
			}
			if uint64(got) != sum {
				// Bytes were consumed but not delivered: the prefix relation
				// can no longer be followed; stop this run here.
				return
			}
			delivered += uint64(got)
			c.nonTriv = true

			continue
		}
		if got < 0 || got > bufLen || uint64(got) != sum {
			rc.Fail("count", "LimitReader.Read", fmt.Sprintf(
				"Read(buf %d) returned n=%d but the wrapped reader delivered %d bytes in this call", bufLen, got, sum))

			return
		}
		if delivered+uint64(got) > n {
			rc.Fail("over-delivery", "LimitReader.Read", fmt.Sprintf("delivered %d bytes with limit %d", delivered+uint64(got), n))

			return
		}
		if !bytes.Equal(p[:got], data[delivered:delivered+uint64(got)]) {
			rc.Fail("not-prefix", "LimitReader.Read", fmt.Sprintf(
				"bytes delivered at offset %d are %v, the stream has %v", delivered, p[:got], data[delivered:delivered+uint64(got)]))

			return
		}
		delivered += uint64(got)
		switch {
		case sawErr && err != underErr:
			rc.Fail("error-passthrough", "LimitReader.Read", fmt.Sprintf(
				"wrapped reader returned error %v in this call but Read returned %v", underErr, err))

			return
		case !sawErr && err != nil:
			rc.Fail("error-invented", "LimitReader.Read", fmt.Sprintf(
				"Read returned error %v although the wrapped reader returned none in this call and only %d of %d bytes have been delivered",
				err, delivered-uint64(got), n))

			return
		}
		if sawErr || got < bufLen {
			c.nonTriv = true
		}
	}
}

// runNestedReader wraps a limited reader in another one: for the outer reader
// the inner one is "r", with its own remaining budget.
func runNestedReader(c *ctx) {
	tp, rc := c.rc.Tape, c.rc
	l := tp.Range(1, 40)
	data := mkData(l)
	n0 := uint64(tp.Range(1, l+3))
	sr := kernel.NewSimReader(tp, rc.Stats, data, false)
	inner := ioutil.LimitReader(sr, n0)
	var total uint64 // bytes delivered through the inner reader, by whomever
	read := func(r interface{ Read([]byte) (int, error) }, who string, limit uint64, delivered *uint64) (stop bool) {
		p := make([]byte, tp.Choose(12))
		got, err := r.Read(p)
		c.logf("%s.Read(buf %d) = (%d, %v)", who, len(p), got, err)
		c.sig = kernel.HashBytes(c.sig, []byte{byte(len(p)), byte(got), errByte(err)})
		rc.Steps++
		if got < 0 || got > len(p) || !bytes.Equal(p[:got], data[total:min(uint64(l), total+uint64(got))]) {
			rc.Fail("not-prefix", "LimitReader.Read", fmt.Sprintf("%s reader delivered %v at stream offset %d of %v", who, p[:max(got, 0)], total, data))

			return true
		}
		total += uint64(got)
		*delivered += uint64(got)
		switch {
		case total > n0:
			rc.Fail("over-delivery", "LimitReader.Read", fmt.Sprintf(
				"%d bytes came out of a reader limited to %d (the outer reader, limited to %d, bypassed the budget of the reader it wraps)", total, n0, limit))

			return true
		case *delivered > limit:
			rc.Fail("over-delivery", "LimitReader.Read", fmt.Sprintf("the %s reader delivered %d bytes with limit %d", who, *delivered, limit))

			return true
		}
		var le *ioutil.LimitError
		if errors.As(err, &le) {
			switch {
			case le.Limit == limit && *delivered == limit, who == "outer" && le.Limit == n0 && total == n0:
			default:
				rc.Fail("limit-error", "LimitReader.Read", fmt.Sprintf(
					"%s reader (limit %d, delivered %d; inner limit %d, delivered through it %d) returned %v", who, limit, *delivered, n0, total, err))
			}

			return true
		}

		return err != nil
	}
	var innerDelivered uint64
	for k := tp.Choose(4); k > 0; k-- {
		if read(inner, "inner", n0, &innerDelivered) {
			return
		}
	}
	n := uint64(tp.Range(1, int(n0)+2))
	outer := ioutil.LimitReader(inner, n)
	c.logf("nested: stream=%d inner limit=%d consumed=%d outer limit=%d", l, n0, innerDelivered, n)
	c.sig = kernel.HashBytes(c.sig, []byte(fmt.Sprint("N", l, n0, innerDelivered, n)))
	c.nonTriv = true
	rc.Stats.Probe("nested-limited-readers")
	// innerDelivered keeps counting what goes through the inner reader.
	var outerDelivered uint64
	for i := 0; i < 40; i++ {
		if read(outer, "outer", n, &outerDelivered) {
			return
		}
	}
}

// runGrowingBuffer wraps a *bytes.Buffer (or a strings/bytes Reader) that holds
// less than the limit when it is wrapped and more afterwards.
func runGrowingBuffer(c *ctx) {
	tp, rc := c.rc.Tape, c.rc
	n := uint64(tp.Range(1, 20))
	first := mkData(tp.Choose(int(n)))
	buf := bytes.NewBuffer(append([]byte(nil), first...))
	lr := ioutil.LimitReader(buf, n)
	more := mkData(int(n) + tp.Range(1, 10))[len(first):]
	buf.Write(more)
	stream := append(append([]byte(nil), first...), more...)
	c.logf("growing buffer: limit=%d initially %d bytes, then %d", n, len(first), len(stream))
	c.sig = kernel.HashBytes(c.sig, []byte(fmt.Sprint("G", n, len(first), len(stream))))
	c.nonTriv = true
	rc.Stats.Probe("growing-buffer")
	var delivered uint64
	for i := 0; i < 50; i++ {
		p := make([]byte, tp.Choose(9))
		got, err := lr.Read(p)
		rc.Steps++
		c.sig = kernel.HashBytes(c.sig, []byte{byte(len(p)), byte(got), errByte(err)})
		if got < 0 || got > len(p) || delivered+uint64(got) > n || !bytes.Equal(p[:got], stream[delivered:delivered+uint64(got)]) {
			rc.Fail("over-delivery", "LimitReader.Read", fmt.Sprintf(
				"LimitReader over a bytes.Buffer that grew after wrapping: Read returned %d bytes after %d of limit %d", got, delivered, n))

			return
		}
		delivered += uint64(got)
		var le *ioutil.LimitError
		if errors.As(err, &le) {
			if delivered != n || le.Limit != n {
				rc.Fail("limit-error", "LimitReader.Read", fmt.Sprintf("returned %v after %d of %d bytes", err, delivered, n))
			}

			return
		}
		if err != nil {
			rc.Fail("error-invented", "LimitReader.Read", fmt.Sprintf("a bytes.Buffer with %d unread bytes and limit %d (delivered %d): Read returned %v", len(stream)-int(delivered), n, delivered, err))

			return
		}
	}
}

// checkForwarded compares what the wrapped writer has been given with the
// first min(total, limit) bytes of everything written.
func checkForwarded(rc *kernel.RunCtx, c *ctx, sw *kernel.SimWriter, all []byte, limit uint) bool {
	var fwd []byte
	for _, wc := range sw.Calls {
		fwd = append(fwd, wc.Data...)
	}
	want := all
	if uint(len(want)) > limit {
		want = want[:limit]
		c.nonTriv = true
	}
	if !bytes.Equal(fwd, want) {
		rc.Fail("forwarded", "TruncatedWriter.Write", fmt.Sprintf(
			"after %d bytes written with limit %d the wrapped writer has been given %d bytes %v, want exactly the first %d: %v",
			len(all), limit, len(fwd), fwd, len(want), want))

		return false
	}

	return true
}

// byteSimWriter adds WriteByte to the simulated writer (same faults, same
// record of what was written).
type byteSimWriter struct{ *kernel.SimWriter }

func (w byteSimWriter) WriteByte(c byte) error {
	_, err := w.SimWriter.Write([]byte{c})

	return err
}

// bufSimWriter adds Grow with the contract of bytes.Buffer and
// strings.Builder to the simulated writer: a negative count panics, and so
// does a count for which no memory can be had.  Nobody has a reason to call
// it.
type bufSimWriter struct{ *kernel.SimWriter }

func (w bufSimWriter) Grow(n int) {
	switch {
	case n < 0:
		panic("verif: Grow: negative count")
	case n > 1<<32:
		panic(bytes.ErrTooLarge)
	}
}

// errPool: kinds of errors a wrapped reader may fail with.
type eofLikeError struct{ op string }

func (e *eofLikeError) Error() string { return e.op + ": connection closed" }
func (e *eofLikeError) Unwrap() error { return io.EOF }

var errPool = []error{
	kernel.ErrInjected,
	fmt.Errorf("reading chunk: %w", io.EOF),
	&eofLikeError{op: "read"},
	io.ErrUnexpectedEOF,
	fmt.Errorf("wrapped twice: %w", fmt.Errorf("inner: %w", kernel.ErrInjected)),
}

func errByte(err error) byte {
	switch {
	case err == nil:
		return 0
	case errors.Is(err, kernel.ErrInjected):
		return 2
	default:
		var le *ioutil.LimitError
		if errors.As(err, &le) {
			return 3
		}

		return 1
	}
}

func fmtCalls(calls []kernel.ReadCall) string {
	s := ""
	for _, uc := range calls {
		s += fmt.Sprintf("[buf %d -> (%d, %v)]", uc.Buf, uc.N, uc.Err)
	}
	if s == "" {
		s = "none"
	}

	return s
}

func runWriter(c *ctx) {
	tp, rc := c.rc.Tape, c.rc
	var limit uint
	switch tp.Choose(5) {
	case 0:
		limit = 0
	case 1:
		limit = math.MaxUint
	case 2:
		limit = uint(tp.Choose(6))
	default:
		limit = uint(tp.Choose(31))
	}
	sw := &kernel.SimWriter{Tape: tp, Stats: rc.Stats}
	if tp.Bool(1, 3) {
		sw.FailRate = 4
		// Kinds of write errors, among them the one that package os retries.
		sw.Errs = []error{kernel.ErrInjected, syscall.EINTR, io.ErrShortWrite, fmt.Errorf("write: %w", syscall.EPIPE),
			os.ErrClosed, io.ErrClosedPipe, fmt.Errorf("log file: %w", os.ErrClosed), os.ErrDeadlineExceeded}
	}
	// The wrapped writer may offer more than Write (io.ByteWriter, as a
	// bufio.Writer or a bytes.Buffer does); what arrives through it counts like
	// what arrives through Write.
	var wrapped io.Writer = sw
	if tp.Bool(1, 3) {
		wrapped = byteSimWriter{sw}
		rc.Stats.Probe("wrapped-writer-offers-WriteByte")
	}
	if tp.Bool(1, 6) {
		sw.ShortNil = 4
	}
	if _, plain := wrapped.(*kernel.SimWriter); plain && tp.Bool(1, 3) {
		wrapped = bufSimWriter{sw}
		rc.Stats.Probe("wrapped-writer-offers-Grow")
	}
	tw := ioutil.NewTruncatedWriter(wrapped, limit)
	c.logf("writer: limit=%d failing=%v", limit, sw.FailRate > 0)
	c.sig = kernel.HashBytes(c.sig, []byte(fmt.Sprint("W", limit, sw.FailRate)))

	var all []byte
	nCalls := tp.Range(1, 12)
	next := byte(1)
	for i := 0; i < nCalls; i++ {
		var l int
		switch tp.Choose(3) {
		case 0:
			l = tp.Choose(3)
		case 1:
			l = tp.Choose(8)
		default:
			l = tp.Choose(20)
		}
		var b []byte
		if l > 0 || tp.Bool(1, 2) {
			b = make([]byte, l)
		}
		for j := range b {
			b[j] = next
			next++
		}
		orig := append([]byte(nil), b...)
		before := len(sw.Calls)
		rc.Steps++
		if l > 0 && tp.Bool(1, 6) {
			// The same bytes arrive through io.Copy from a plain reader (which
			// uses the writer's ReadFrom, if it has one).
			rc.Stats.Probe("writer-fed-through-io.Copy")
			src := kernel.NewSimReader(tp, rc.Stats, orig, false)
			nc, cerr := io.Copy(tw, struct{ io.Reader }{src})
			if cerr == nil && nc != int64(l) {
				rc.Fail("count", "TruncatedWriter", fmt.Sprintf("io.Copy of %d bytes into the truncated writer reported %d", l, nc))

				return
			}
			if cerr != nil {
				// A failing wrapped writer may cut the copy short: only what
				// went through counts as written.
				orig = orig[:min(int(nc), len(orig))]
			}
			all = append(all, orig...)
			c.sig = kernel.HashBytes(c.sig, []byte{0xC1, byte(l), errByte(cerr)})
			if !checkForwarded(rc, c, sw, all, limit) {
				return
			}

			continue
		}
		var got int
		var err error
		if stw, ok := any(tw).(io.StringWriter); ok && tp.Bool(1, 3) {
			// An optional writing interface: the same statement applies.
			rc.Stats.Probe("write-through-io.StringWriter")
			got, err = stw.WriteString(string(b))
		} else {
			got, err = tw.Write(b)
		}
		calls := sw.Calls[before:]
		all = append(all, orig...)
		c.logf("Write(%d bytes) = (%d, %v); forwarded %d call(s)", l, got, err, len(calls))
		c.sig = kernel.HashBytes(c.sig, []byte{byte(l), byte(got), byte(len(calls)), errByte(err)})

		if got != l {
			rc.Fail("count", "TruncatedWriter.Write", fmt.Sprintf("Write of %d bytes reported %d", l, got))

			return
		}
		if !bytes.Equal(b, orig) {
			rc.Fail("mutated", "TruncatedWriter.Write", "Write modified the caller's buffer")

			return
		}
		var fwd []byte
		for _, wc := range sw.Calls {
			fwd = append(fwd, wc.Data...)
		}
		want := all
		if uint(len(want)) > limit {
			want = want[:limit]
			c.nonTriv = true
			rc.Stats.Probe("write-truncated")
		}
		if !bytes.Equal(fwd, want) {
			rc.Fail("forwarded", "TruncatedWriter.Write", fmt.Sprintf(
				"after %d bytes written with limit %d the wrapped writer has been given %d bytes %v, want exactly the first %d: %v",
				len(all), limit, len(fwd), fwd, len(want), want))

			return
		}
		for _, wc := range calls {
			if wc.Err != nil {
				c.nonTriv = true
				if err != wc.Err {
					// The statement is silent about the wrapped writer's
					// errors: counted, not flagged.
					rc.Stats.Probe("write-error-not-passed-through")
				}
			}
		}
	}
}
