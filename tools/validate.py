#!/usr/bin/env python3
"""Validates MANIFEST.json and evidence/*.json against the schemas (run with python3-vt)."""
import glob, json, sys
import jsonschema
ok = True
def v(path, schema):
    global ok
    try:
        jsonschema.validate(json.load(open(path)), json.load(open(schema)))
        print("valid  ", path)
    except Exception as e:
        ok = False
        print("INVALID", path, str(e)[:400])
v('/verif/MANIFEST.json', '/root/.vp/MANIFEST.schema.json')
for p in sorted(glob.glob('/verif/evidence/*.json')):
    v(p, '/root/.vp/EVIDENCE.schema.json')
m = json.load(open('/verif/MANIFEST.json'))
claimed = {c['property_id'] for c in m['checks']}
na = {c['property_id'] for c in m.get('not_applicable', [])}
allp = {json.loads(l)['id'] for l in open('/verif/properties.jsonl')}
print('claimed', sorted(claimed)); print('n/a', sorted(na)); print('unaccounted', sorted(allp - claimed - na))
sys.exit(0 if ok else 1)
