#!/usr/bin/env python3
"""trybenign.py [name ...]: runs the registered checks against every property-preserving refactoring under /verif/benign/
(independently written, each argued to keep its property) in a scratch worktree and records the verdict in meta.json.
Every check must exit 0: an alarm here is a false alarm of the machinery (or a refactoring that is not benign after all -
to be analysed by hand).  The cache refactorings are run under both C09 and C10."""
import json, os, subprocess, sys, tempfile, shutil, time
root = "/verif/benign"
names = [a for a in sys.argv[1:] if not a.startswith("--")] or sorted(os.listdir(root))
bad = []
for name in names:
    d = os.path.join(root, name)
    prop = name.split("-")[0]
    checks = ["C09", "C10"] if prop in ("C09", "C10") else [prop]
    wt = tempfile.mkdtemp(prefix="benign-"); os.rmdir(wt)
    subprocess.run(["git", "-C", "/repo", "worktree", "add", "-q", "--detach", wt, "HEAD"], check=True)
    meta = dict(name=name, property=prop, checked_at=time.strftime("%Y-%m-%dT%H:%M:%S"), results={})
    try:
        p = subprocess.run(["git", "-C", wt, "apply", "--3way", os.path.join(d, "patch.diff")], stdout=subprocess.PIPE, stderr=subprocess.STDOUT, text=True)
        if p.returncode != 0:
            print(name, "PATCH DOES NOT APPLY"); bad.append(name); continue
        env = dict(os.environ, GOFLAGS="-mod=mod", GOPROXY="off")
        for k in ("GOTOOLCHAIN", "GOSUMDB"):
            env.pop(k, None)
        b = subprocess.run(["go", "test", "-vet=off", "-count=1", "./..."], cwd=wt, env=env, stdout=subprocess.PIPE, stderr=subprocess.STDOUT, text=True)
        meta["existing_suite_passes"] = b.returncode == 0
        for cid in checks:
            r = subprocess.run([sys.executable, "/verif/run.py", cid, "--tier", "quick"], env=dict(os.environ, VERIF_REPO=wt, VERIF_SEED="1"),
                               stdout=subprocess.PIPE, stderr=subprocess.STDOUT, text=True)
            lines = r.stdout.splitlines()
            meta["results"][cid] = dict(exit=r.returncode, summary=[l[:300] for l in lines if " tier=" in l or l.startswith(("HARNESS", "note:", "violation "))][:4])
            print("%-10s %s exit=%d" % (name, cid, r.returncode))
            if r.returncode != 0:
                bad.append(name + "/" + cid)
        json.dump(meta, open(os.path.join(d, "meta.json"), "w"), indent=1)
    finally:
        subprocess.run(["git", "-C", "/repo", "worktree", "remove", "--force", wt])
        shutil.rmtree(wt, ignore_errors=True)
subprocess.run(["git", "-C", "/verif", "checkout", "--", "evidence"])
print("alarms:", bad)
