// Package c19 decides property C19: JSONHybridHandler emits exactly one
// well-formed two-field JSON line per record, through any WithAttrs chain and
// from any number of goroutines.  Real code:
// github.com/AdguardTeam/golibs/logutil/slogutil (jsonhybrid.go) and
// syncutil.Pool.  The simulator owns goroutine scheduling (guarded hook before
// the encoder mutex, the writer, the pool), what the buffer pool returns, and
// the records.
package c19

import (
	"bytes"
	"context"
	"encoding/json"
	"fmt"
	"io"
	"log/slog"
	"runtime"
	"runtime/debug"
	"sort"
	"strings"
	"testing"
	"time"

	"github.com/AdguardTeam/golibs/logutil/slogutil"
	"github.com/AdguardTeam/golibs/syncutil"

	"verif/sim/kernel"
)

func TestWorker(t *testing.T) {
	kernel.WorkerMain(t, &kernel.Check{
		ID:     "C19",
		Bubble: true,
		Setup: func() {
			slogutil.SimHook = kernel.HookPoint
			syncutil.SimHook = kernel.HookSite
			syncutil.SimPoolGet = kernel.PoolGet
			syncutil.SimPoolPut = kernel.PoolPut
		},
		Run: run,
	})
}

// simWriter is the shared destination.  The bytes are collected by the
// scheduler (each Write hands over copies), so the harness itself shares no
// memory between tasks; a missing mutex in the handler shows as overlapping
// Write calls and as a race inside the shared json.Encoder.
type simWriter struct {
	k       *kernel.Kernel
	buf     []byte // scheduler-side
	inWrite bool   // scheduler-side
	writes  int    // scheduler-side
	panicAt int    // scheduler-side: index of the Write that panics, -1 none
}

// errWriterPanic is what the writer panics with when told to fail that way.
var errWriterPanic = fmt.Errorf("verif: the writer panics")

func (w *simWriter) Write(p []byte) (int, error) {
	k := w.k
	half := len(p) / 2
	first := append([]byte(nil), p[:half]...)
	second := append([]byte(nil), p[half:]...)
	fail := k.Ask("writer.begin", func() any {
		if w.inWrite {
			k.Fail("overlapping-write", "JSONHybridHandler.Handle", "a Write to the shared writer began while another one was in progress")
		}
		w.writes++
		if w.writes-1 == w.panicAt {
			return true
		}
		w.inWrite = true
		w.buf = append(w.buf, first...)

		return false
	}).(bool)
	if fail {
		// A fault of the environment: this record's line is lost, every later
		// record must still come out (the handler must not stay locked).
		panic(errWriterPanic)
	}
	k.Yield("writer.mid")
	k.Tell("writer.end", func() {
		w.buf = append(w.buf, second...)
		w.inWrite = false
	})

	return len(p), nil
}

var msgPool = []string{
	"plain", "two words", "quote\"inside", "new\nline", "tab\there", "ctl\x01\x7f", "bad\xff\xfeutf8", "",
	"back\\slash", "uni sep é", "<html>&amp;", "key=value", " lead", "trail ", "{\"json\":1}",
	"del\x7f", "\x7f", "nbsp ", "zero​width", "ls ps ", "emoji😀", "�", "bell\a", "esc\x1b[0m",
}

type ctxKey struct{}

var hugeMsg = strings.Repeat("0123456789abcdef", 4500) // 72 000 bytes

var keyPool = []string{"k", "key two", "a.b", "q\"k", "", "n\nk", "ü", "level", "msg", "time", "d\x7fk", "severity", "message"}

var levels = []slog.Level{slog.LevelDebug, slog.LevelInfo, slog.LevelWarn, slog.LevelError, slog.Level(-8), slog.Level(2), slog.Level(5), slog.Level(7), slog.Level(9), slog.Level(12)}

// phaseBox and phased: a slog.LogValuer whose value changes after the
// handler tree has been built (phase 0 while deriving, 1 while handling), as a
// value that reports the current state of something does.
type phaseBox struct{ phase int }

type phased struct {
	box  *phaseBox
	a, b string
}

func (p phased) LogValue() slog.Value {
	if p.box.phase == 0 {
		return slog.StringValue(p.a)
	}

	return slog.StringValue(p.b)
}

func genAttr(tp *kernel.Tape, depth int, ph *phaseBox) slog.Attr {
	key := keyPool[tp.Choose(len(keyPool))]
	if tp.Bool(1, 12) {
		return slog.Any(key, phased{box: ph, a: "state=starting", b: "state=running"})
	}
	switch tp.Choose(8) {
	case 0:
		return slog.Int(key, tp.Choose(2000)-1000)
	case 1:
		return slog.Bool(key, tp.Bool(1, 2))
	case 2:
		return slog.Float64(key, float64(tp.Choose(100))/8)
	case 3:
		return slog.Duration(key, time.Duration(tp.Choose(100000))*time.Millisecond)
	case 4:
		if depth < 2 {
			var as []any
			for n := tp.Choose(3); n > 0; n-- {
				as = append(as, genAttr(tp, depth+1, ph))
			}

			return slog.Group(key, as...)
		}

		return slog.String(key, "deep")
	case 5:
		return slog.Any(key, []byte(msgPool[tp.Choose(len(msgPool))]))
	case 6:
		return slog.Any(key, fmt.Errorf("err %s", msgPool[tp.Choose(len(msgPool))]))
	default:
		return slog.String(key, msgPool[tp.Choose(len(msgPool))])
	}
}

// node is one handler of the derivation tree.
type node struct {
	h     slog.Handler
	attrs []slog.Attr // accumulated along the chain
	name  string
}

type handled struct {
	task  int
	seq   int
	id    int
	level slog.Level
	want  string // predicted message
}

type outLine struct {
	severity string
	message  string
}

func run(rc *kernel.RunCtx) {
	tp := rc.Tape
	k := kernel.NewKernel(tp)
	k.KeepLog = rc.KeepLog
	k.EnablePool(rc.Stats)

	w := &simWriter{k: k, panicAt: -1}
	if tp.Bool(1, 12) {
		w.panicAt = tp.Choose(6)
		rc.Stats.Fault("writer-panic-armed")
	}
	ph := &phaseBox{}

	// Options.
	var opts *slog.HandlerOptions
	cfgLevel := slog.LevelInfo
	removeTime := false
	elideBuiltins := false
	switch tp.Choose(4) {
	case 0:
		// nil options
	default:
		opts = &slog.HandlerOptions{}
		if tp.Bool(2, 3) {
			cfgLevel = []slog.Level{slog.LevelDebug, slog.LevelInfo, slog.LevelWarn, slog.LevelError, slog.Level(-8), slog.Level(6)}[tp.Choose(6)]
			opts.Level = cfgLevel
		}
		if tp.Bool(1, 4) {
			opts.AddSource = true
		}
		if tp.Bool(1, 6) {
			// A ReplaceAttr that elides all built-in attributes: a record
			// without attributes then renders to an empty text line.
			opts.ReplaceAttr = func(groups []string, a slog.Attr) slog.Attr {
				if len(groups) == 0 && (a.Key == slog.TimeKey || a.Key == slog.LevelKey || a.Key == slog.MessageKey) {
					return slog.Attr{}
				}

				return a
			}
			elideBuiltins = true
		} else if tp.Bool(1, 2) {
			removeTime = true
			// Like slogutil's own ReplaceAttr, but total: slogutil.ReplaceLevel
			// panics on a user attribute named "level" whose value is not a
			// slog.Level (observed here; outside C19, where the reference
			// slog.TextHandler would panic in the same way).
			opts.ReplaceAttr = func(groups []string, a slog.Attr) slog.Attr {
				a = slogutil.RemoveTime(groups, a)
				if len(groups) == 0 && a.Key == slog.LevelKey {
					if lvl, ok := a.Value.Any().(slog.Level); ok && lvl == slogutil.LevelTrace {
						a.Value = slog.StringValue("TRACE")
					}
				}

				return a
			}
		}
	}
	_ = removeTime
	// Records normally carry a unique "id" attribute; some runs do without,
	// so that records with no attributes at all occur (lines are compared as
	// a multiset, which does not need uniqueness).
	withID := !tp.Bool(1, 4)
	if elideBuiltins {
		withID = tp.Bool(1, 2)
	}

	root := &node{h: slogutil.NewJSONHybridHandler(w, opts), name: "h0"}
	nodes := []*node{root}
	derive := func(parent *node, attrs []slog.Attr) *node {
		n := &node{
			h:     parent.h.WithAttrs(attrs),
			attrs: append(append([]slog.Attr(nil), parent.attrs...), attrs...),
			name:  "h" + kernel.Itoa(len(nodes)),
		}

		return n
	}
	genAttrs := func() []slog.Attr {
		var as []slog.Attr
		for n := tp.Range(1, 3); n > 0; n-- {
			as = append(as, genAttr(tp, 0, ph))
		}

		return as
	}
	// Part of the tree is built before the run.
	for n := tp.Choose(5); n > 0; n-- {
		parent := nodes[tp.Choose(len(nodes))]
		nodes = append(nodes, derive(parent, genAttrs()))
	}
	nStatic := len(nodes)
	ph.phase = 1 // from here on (predictions, handling) the phased values have changed
	k.Logf("config level=", kernel.Itoa(int(cfgLevel)), " opts=", btoa(opts != nil), " handlers=", kernel.Itoa(nStatic))

	ctx := context.Background()
	predict := func(r slog.Record, attrs []slog.Attr) string {
		var b bytes.Buffer
		th := slog.NewTextHandler(&b, opts)
		rr := r.Clone()
		rr.AddAttrs(attrs...)
		if err := th.Handle(ctx, rr); err != nil {
			return "predict error: " + err.Error()
		}

		return strings.TrimSuffix(b.String(), "\n")
	}

	// Plans: every task handles records on drawn handlers; a task may first
	// derive a handler of its own (concurrently with the others).
	type step struct {
		node     int // index into nodes; -1: the task's own derived handler
		rec      slog.Record
		id       int
		deriveOf int // >= 0: derive own handler from this node before the step
		attrs    []slog.Attr
		want     string // predicted message (computed before the run)
		name     string
		ctx      context.Context
		shared   bool // the record value is handed out as it is, see sharedRecs
	}
	nTasks := tp.Range(1, 4)
	plans := make([][]step, nTasks)
	// The context a record is handled with must not matter ("Canceling the
	// context should not affect record processing", slog.Handler): each task
	// has its own live, cancelled, expired and value-carrying contexts,
	// created before the run.
	taskCtxs := make([][]context.Context, nTasks)
	for ti := range taskCtxs {
		cancelled, cancel := context.WithCancel(context.Background())
		cancel()
		expired, cancel2 := context.WithDeadline(context.Background(), time.Unix(1, 0))
		defer cancel2()
		live, cancel3 := context.WithCancel(context.WithValue(context.Background(), ctxKey{}, ti))
		defer cancel3()
		taskCtxs[ti] = []context.Context{ctx, cancelled, expired, live}
	}
	// Derivations made by the tasks during the run draw their attribute lists
	// from a small pool, so that the same list is given to WithAttrs on the
	// same parent more than once; some runs derive a lot.
	derivPool := [][]slog.Attr{genAttrs(), genAttrs(), genAttrs()}
	deriveNum := 1
	if tp.Bool(1, 4) {
		deriveNum = 3
		rc.Stats.Probe("derive-heavy")
	}
	// A record value may be handed to more than one Handle call - by a fan-out
	// handler that passes what it was given to several handlers, by a caller
	// that logs one prepared record through two loggers - and copies of a
	// Record share state.  Records drawn as shared are therefore never cloned by
	// the harness, and later steps (of any task) may hand out the same value
	// again.  ("Do not modify a Record after handing out a copy to it": the
	// harness does not.)
	var sharedRecs []slog.Record
	// Scheduler-side record of what was handled.
	var done []handled
	seqs := make([]int, nTasks)
	nextID := 0
	var t0 time.Time
	if tp.Bool(1, 3) {
		t0 = time.Date(2024, 10, 22, 12, 9, 59, 525000000, time.UTC)
	}
	for ti := range plans {
		hasOwn := false
		var ownAttrs []slog.Attr
		for n := tp.Range(1, 4); n > 0; n-- {
			st := step{deriveOf: -1}
			if tp.Bool(deriveNum, 4) {
				st.deriveOf = tp.Choose(min(nStatic, 2))
				st.attrs = derivPool[tp.Choose(len(derivPool))]
				hasOwn = true
				ownAttrs = append(append([]slog.Attr(nil), nodes[st.deriveOf].attrs...), st.attrs...)
			}
			st.node = tp.Choose(nStatic)
			if hasOwn && tp.Bool(1, 2) {
				st.node = -1
			}
			lvl := levels[tp.Choose(len(levels))]
			nextID++
			st.id = nextID
			msg := msgPool[tp.Choose(len(msgPool))]
			if tp.Bool(1, 48) {
				// A line far beyond the initial buffer estimate.
				msg = hugeMsg
				rc.Stats.Probe("huge-record")
			}
			pc := uintptr(0)
			if opts != nil && opts.AddSource && tp.Bool(3, 4) {
				pc = herePC()
			}
			r := slog.NewRecord(t0, lvl, msg, pc)
			if withID {
				r.AddAttrs(slog.Int("id", st.id))
			}
			nAttrs := tp.Choose(8)
			if !withID && tp.Bool(1, 2) {
				nAttrs = 0
			}
			for a := nAttrs; a > 0; a-- {
				r.AddAttrs(genAttr(tp, 0, ph))
			}
			switch {
			case len(sharedRecs) > 0 && tp.Bool(1, 6):
				r = sharedRecs[tp.Choose(len(sharedRecs))]
				st.shared = true
				rc.Stats.Probe("record-handled-again")
			case tp.Bool(1, 5):
				sharedRecs = append(sharedRecs, r)
				st.shared = true
			}
			st.rec = r
			st.ctx = ctx
			if tp.Bool(1, 4) {
				c := 1 + tp.Choose(3)
				st.ctx = taskCtxs[ti][c]
				if c < 3 {
					rc.Stats.Fault("context-already-done")
				}
			}
			if st.node >= 0 {
				st.want = predict(r, nodes[st.node].attrs)
				st.name = nodes[st.node].name
			} else {
				st.want = predict(r, ownAttrs)
				st.name = "own handler of T" + kernel.Itoa(ti)
			}
			plans[ti] = append(plans[ti], st)
		}
	}

	for ti := 0; ti < nTasks; ti++ {
		ti := ti
		k.Go("T"+kernel.Itoa(ti), false, func() {
			var own slog.Handler
			for _, st := range plans[ti] {
				st := st
				k.Yield("op")
				if st.deriveOf >= 0 {
					own = nodes[st.deriveOf].h.WithAttrs(st.attrs)
					k.Yield("derived")
				}
				h := own
				if st.node >= 0 {
					h = nodes[st.node].h
				}
				enabled := h.Enabled(st.ctx, st.rec.Level)
				if enabled != (st.rec.Level >= cfgLevel) {
					k.Report("enabled", "JSONHybridHandler.Enabled", fmt.Sprintf(
						"handler %s (configured level %v): Enabled(%v) = %v", st.name, cfgLevel, st.rec.Level, enabled))

					return
				}
				if !enabled {
					continue
				}
				// Each Handle call gets its own record, as slog.Logger does,
				// unless the record is one that is handed out repeatedly.
				rec := st.rec
				if !st.shared {
					rec = rec.Clone()
				}
				want := st.want
				err, pv, stack := safeHandle(h, st.ctx, rec)
				if pv == error(errWriterPanic) {
					// The injected fault: no line for this record.
					k.Tell("writer-panicked", func() { rc.Stats.Fault("writer-panicked") })

					continue
				}
				if pv != nil {
					k.Report("panic", kernel.PanicSite(stack), fmt.Sprintf("Handle panicked: %v\n%s", pv, stack))

					return
				}
				// An error returned by Handle is not constrained by the
				// statement; the output checks decide.
				_ = err
				k.Tell("handled", func() {
					done = append(done, handled{task: ti, seq: seqs[ti], id: st.id, level: st.rec.Level, want: want})
					seqs[ti]++
				})
			}
		})
	}

	k.Run()
	if !k.Failed() && k.HarnessErr == "" && k.Inconclusive == "" {
		for _, t := range k.Tasks() {
			if !t.Daemon && !t.Exited() {
				k.Fail("deadlock", "JSONHybridHandler.Handle", "task "+t.Name+" can never run again (parked at "+t.ParkedSite()+")")

				break
			}
		}
	}
	failed := k.Failed()
	k.Finish()
	rc.Adopt(k)
	if failed || k.HarnessErr != "" || k.Inconclusive != "" {
		return
	}
	checkOutput(rc, w.buf, done)
}

// herePC returns a program counter inside this package, as slog.Logger
// records the caller's.
func herePC() uintptr {
	var pcs [1]uintptr
	runtime.Callers(1, pcs[:])

	return pcs[0]
}

func safeHandle(h slog.Handler, ctx context.Context, r slog.Record) (err error, pv any, stack string) {
	defer func() {
		if v := recover(); v != nil {
			if kernel.IsAbort(v) {
				panic(v)
			}
			pv, stack = v, string(debug.Stack())
		}
	}()

	return h.Handle(ctx, r), nil, ""
}

func btoa(b bool) string {
	if b {
		return "1"
	}

	return "0"
}

// parseLine checks, at token level, that line is one JSON object whose
// members are exactly "severity" and "message" (strings), once each.
func parseLine(line []byte) (o outLine, err error) {
	dec := json.NewDecoder(bytes.NewReader(line))
	tok, err := dec.Token()
	if err != nil || tok != json.Delim('{') {
		return o, fmt.Errorf("not a JSON object: %v", err)
	}
	seen := map[string]bool{}
	for dec.More() {
		kt, err := dec.Token()
		if err != nil {
			return o, err
		}
		key, ok := kt.(string)
		if !ok {
			return o, fmt.Errorf("non-string key %v", kt)
		}
		if seen[key] {
			return o, fmt.Errorf("duplicate member %q", key)
		}
		seen[key] = true
		vt, err := dec.Token()
		if err != nil {
			return o, err
		}
		val, ok := vt.(string)
		if !ok {
			return o, fmt.Errorf("member %q is not a string", key)
		}
		switch key {
		case "severity":
			o.severity = val
		case "message":
			o.message = val
		default:
			return o, fmt.Errorf("unexpected member %q", key)
		}
	}
	if tok, err = dec.Token(); err != nil || tok != json.Delim('}') {
		return o, fmt.Errorf("object not closed: %v", err)
	}
	if _, err = dec.Token(); err != io.EOF {
		return o, fmt.Errorf("trailing data after the object")
	}
	if !seen["severity"] || !seen["message"] {
		return o, fmt.Errorf("missing member (have %v)", seen)
	}

	return o, nil
}

func checkOutput(rc *kernel.RunCtx, out []byte, done []handled) {
	site := "JSONHybridHandler.Handle"
	if len(out) > 0 && out[len(out)-1] != '\n' {
		rc.Fail("output", site, fmt.Sprintf("output does not end with a newline: %q", out))

		return
	}
	var lines []outLine
	if len(out) > 0 {
		for _, l := range bytes.Split(out[:len(out)-1], []byte{'\n'}) {
			o, err := parseLine(l)
			if err != nil {
				rc.Fail("malformed-line", site, fmt.Sprintf("line %q: %v", l, err))

				return
			}
			lines = append(lines, o)
		}
	}
	if len(lines) != len(done) {
		rc.Fail("line-count", site, fmt.Sprintf("%d records were handled but the writer holds %d lines:\n%s", len(done), len(lines), out))

		return
	}
	// Multiset equality of (severity, message).
	want := map[outLine]int{}
	for _, d := range done {
		sev := "NORMAL"
		if d.level >= slog.LevelError {
			sev = "ERROR"
		}
		// The JSON encoder replaces invalid UTF-8 by U+FFFD; slog.TextHandler
		// output is valid UTF-8 (it quotes such strings), so this is identity.
		want[outLine{severity: sev, message: strings.ToValidUTF8(d.want, "�")}]++
	}
	for _, l := range lines {
		want[l]--
	}
	var diffs []string
	for l, n := range want {
		if n > 0 {
			diffs = append(diffs, fmt.Sprintf("missing  %q %q", l.severity, l.message))
		} else if n < 0 {
			diffs = append(diffs, fmt.Sprintf("unexpected %q %q", l.severity, l.message))
		}
	}
	if len(diffs) > 0 {
		sort.Strings(diffs)
		rc.Fail("wrong-line", site, "output lines differ from slog.TextHandler's rendering of the handled records with the chain's attributes appended:\n"+strings.Join(diffs, "\n"))

		return
	}
	// Program order per task.
	pos := map[outLine][]int{}
	for i, l := range lines {
		pos[l] = append(pos[l], i)
	}
	last := map[int]int{}
	byTask := map[int][]handled{}
	for _, d := range done {
		byTask[d.task] = append(byTask[d.task], d)
	}
	for task, ds := range byTask {
		sort.Slice(ds, func(i, j int) bool { return ds[i].seq < ds[j].seq })
		last[task] = -1
		for _, d := range ds {
			sev := "NORMAL"
			if d.level >= slog.LevelError {
				sev = "ERROR"
			}
			ps := pos[outLine{severity: sev, message: strings.ToValidUTF8(d.want, "�")}]
			ok := false
			for _, p := range ps {
				if p > last[task] {
					last[task] = p
					ok = true

					break
				}
			}
			if !ok {
				// Program order of one task's lines is natural for a
				// synchronous handler but not part of the statement.
				rc.Stats.Probe("task-order-not-preserved")

				return
			}
		}
	}
}
