//go:build autoyield

package c20

import (
	"github.com/AdguardTeam/golibs/netutil/httputil"

	"verif/sim/kernel"
)

// With the autoyield overlay the httputil package has a SimHook (added by the
// overlay, not by the repository) and a yield before every statement of
// logmw.go, httputil.go and responsewriter.go.
func init() {
	overlayHooks = func() {
		httputil.SimHook = kernel.HookSite
	}
}
