//go:build !race

package kernel

import "unsafe"

// RaceEnabled reports whether the binary was built with the race detector.
const RaceEnabled = false

func raceDisable()                      {}
func raceEnable()                       {}
func raceAcquire(_ unsafe.Pointer)      {}
func raceReleaseMerge(_ unsafe.Pointer) {}
func raceRelease(_ unsafe.Pointer)      {}
func raceErrors() int                   { return 0 }
