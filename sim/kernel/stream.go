package kernel

import (
	"errors"
	"io"
)

// ReadCall records one call of the simulated reader.
type ReadCall struct {
	Err    error
	Buf    int // len(p)
	N      int
	Offset int // stream position before the call
}

// SimReader is a fault-injecting io.Reader over a fixed byte stream.  Every
// behaviour is drawn from the tape and stays within the io.Reader contract
// (0 <= n <= len(p)): short reads, (0, nil) reads (at most MaxZeroRun in a
// row), data together with io.EOF, repeated EOF, an injected error at a drawn
// position (returned alone or together with data; sticky or transient).
type SimReader struct {
	Tape  *Tape
	Stats *Stats
	Data  []byte
	Pos   int

	// Configuration, normally drawn by NewSimReader.
	MaxChunk   int
	ZeroReads  bool
	DataEOF    bool
	ErrAt      int // -1: no injected error
	ErrSticky  bool
	ErrData    bool
	Err        error
	MaxZeroRun int

	// ZeroOutOf4 is the chance (out of 4, default 1) of an empty read where
	// one is allowed.
	ZeroOutOf4 int

	// NegativeCounts (out of 64 per call, 0 = never) makes the reader break
	// the io.Reader contract by returning a negative count now and then.
	NegativeCounts int

	Calls   []ReadCall
	zeroRun int
	errDone bool

	// OnRead, if set, is called at the start of every Read (yield point for
	// concurrent workloads).
	OnRead func(p []byte)
}

// ErrInjected is the error injected by simulated streams.
var ErrInjected = errors.New("verif: injected I/O error")

// NewSimReader draws a reader behaviour for data.  withErr selects the
// separate fault configuration in which an I/O error is injected.
func NewSimReader(tp *Tape, st *Stats, data []byte, withErr bool) *SimReader {
	r := &SimReader{Tape: tp, Stats: st, Data: data, ErrAt: -1, MaxZeroRun: 3, Err: ErrInjected}
	switch tp.Choose(4) {
	case 0:
		r.MaxChunk = 1
	case 1:
		r.MaxChunk = 1 + tp.Choose(7)
	case 2:
		r.MaxChunk = 1 + tp.Choose(64)
	default:
		r.MaxChunk = 1 << 20
	}
	r.ZeroReads = tp.Bool(1, 3)
	r.DataEOF = tp.Bool(1, 2)
	if withErr {
		r.ErrAt = tp.Choose(len(data) + 1)
		r.ErrSticky = tp.Bool(1, 2)
		r.ErrData = tp.Bool(1, 2)
	}

	return r
}

// Read implements io.Reader.
func (r *SimReader) Read(p []byte) (n int, err error) {
	if r.OnRead != nil {
		r.OnRead(p)
	}
	off := r.Pos
	defer func() { r.Calls = append(r.Calls, ReadCall{Buf: len(p), N: n, Err: err, Offset: off}) }()

	if r.ErrAt >= 0 && r.Pos >= r.ErrAt && (!r.errDone || r.ErrSticky) {
		first := !r.errDone
		r.errDone = true
		if first && r.ErrData && len(p) > 0 && r.Pos < len(r.Data) {
			// Data together with the error.
			n = 1 + r.Tape.Choose(min(len(p), len(r.Data)-r.Pos, r.MaxChunk))
			copy(p, r.Data[r.Pos:r.Pos+n])
			r.Pos += n
			r.Stats.Fault("read-data+error")

			return n, r.Err
		}
		r.Stats.Fault("read-error")

		return 0, r.Err
	}
	if r.Pos >= len(r.Data) {
		r.Stats.Fault("read-eof")

		return 0, io.EOF
	}
	if len(p) == 0 {
		return 0, nil
	}
	if r.NegativeCounts > 0 && r.Tape.Bool(r.NegativeCounts, 64) {
		r.Stats.Fault("read-negative-count")

		return -1 - r.Tape.Choose(4), nil
	}
	if r.ZeroReads && r.zeroRun < r.MaxZeroRun && r.Tape.Bool(max(r.ZeroOutOf4, 1), 4) {
		r.zeroRun++
		r.Stats.Fault("read-zero-nil")

		return 0, nil
	}
	r.zeroRun = 0
	limit := min(len(p), len(r.Data)-r.Pos, r.MaxChunk)
	if r.ErrAt > r.Pos && !r.errDone {
		limit = min(limit, r.ErrAt-r.Pos)
	}
	n = limit
	if limit > 1 && r.Tape.Bool(1, 2) {
		n = 1 + r.Tape.Choose(limit)
		if n < min(len(p), len(r.Data)-r.Pos) {
			r.Stats.Fault("read-short")
		}
	}
	copy(p, r.Data[r.Pos:r.Pos+n])
	r.Pos += n
	if r.Pos == len(r.Data) && r.DataEOF && (r.ErrAt < 0 || r.errDone || r.ErrAt > r.Pos) {
		r.Stats.Fault("read-data+eof")

		return n, io.EOF
	}

	return n, nil
}

// WriteCall records one call of the simulated writer.
type WriteCall struct {
	Err  error
	Data []byte
	N    int
}

// SimWriter is a fault-injecting io.Writer: it records what it is given and
// may fail (returning an error with a full, short or zero count).
type SimWriter struct {
	Tape  *Tape
	Stats *Stats

	// FailRate is the chance (out of 16) that a Write fails.
	FailRate int

	// Errs, if set, are the errors a failing Write draws from (default:
	// ErrInjected).
	Errs []error

	// ShortNil (out of 16) makes the writer break the io.Writer contract by
	// reporting a short count with a nil error now and then.
	ShortNil int

	Calls []WriteCall

	// OnWrite, if set, is called at the start of every Write.
	OnWrite func(p []byte)
}

// Write implements io.Writer.
func (w *SimWriter) Write(p []byte) (n int, err error) {
	if w.OnWrite != nil {
		w.OnWrite(p)
	}
	n = len(p)
	if w.FailRate > 0 && w.Tape.Bool(w.FailRate, 16) {
		err = ErrInjected
		if len(w.Errs) > 0 {
			err = w.Errs[w.Tape.Choose(len(w.Errs))]
		}
		switch w.Tape.Choose(3) {
		case 0:
			n = 0
			w.Stats.Fault("write-error-zero")
		case 1:
			n = w.Tape.Choose(len(p) + 1)
			w.Stats.Fault("write-error-short")
		default:
			w.Stats.Fault("write-error-full-count")
		}
	}
	if err == nil && w.ShortNil > 0 && len(p) > 0 && w.Tape.Bool(w.ShortNil, 16) {
		n = w.Tape.Choose(len(p))
		w.Stats.Fault("write-short-nil-error")
	}
	w.Calls = append(w.Calls, WriteCall{Data: append([]byte(nil), p...), N: n, Err: err})

	return n, err
}
